/-
Model/NFA.lean — automata/fa/nfa.py: definition, validation, λ-closures, reading.
Mirrors: NFA.__init__ parameters, validate, _get_lambda_closures,
_get_next_current_states, _check_for_input_rejection, read_input_stepwise,
Automaton.read_input / accepts_input / __contains__.
The empty-string symbol `""` is `none : Option α`.
-/
import AutomataVerif.Model.Basic

namespace AV

structure NFA (σ α : Type) where
  states : List σ
  syms : List α
  trans : List (σ × List (Option α × List σ))
  init : σ
  finals : List σ
  deriving Repr

namespace NFA
variable {σ α : Type} [DecidableEq σ] [DecidableEq α]

def row? (n : NFA σ α) (q : σ) : Option (List (Option α × List σ)) := alookup q n.trans
def row (n : NFA σ α) (q : σ) : List (Option α × List σ) := (n.row? q).getD []

/-- Targets of `q` on `a` (`a = none` for λ): `transitions.get(q, {}).get(a, {})`. -/
def targets (n : NFA σ α) (q : σ) (a : Option α) : List σ := (alookup a (n.row q)).getD []

/-- Every node of the λ-graph: `add_nodes_from(states)` plus edge endpoints. -/
def nodes (n : NFA σ α) : List σ :=
  dedup (n.states ++ akeys n.trans ++ (n.trans.flatMap fun kv => kv.2.flatMap fun e => e.2))

/-- One λ-step. -/
def epsSucc (n : NFA σ α) (q : σ) : List σ := n.targets q none

/-- `get_reachable_nodes(lambda_graph, [q])`. -/
def closure (n : NFA σ α) (q : σ) : List σ := bfs n.epsSucc n.nodes [q]

/-- `lambda_closures[q]`: the dict only has the members of `states` as keys. -/
def closureE (n : NFA σ α) (q : σ) : Res (List σ) :=
  if q ∈ n.states then .ok (n.closure q) else .error (.py .keyError)

/-- `_get_next_current_states(current_states, input_symbol)`. -/
def nextStatesE (n : NFA σ α) (cur : List σ) (a : α) : Res (List σ) :=
  cur.foldlM (init := []) fun acc q =>
    match n.row? q with
    | none => pure acc
    | some r =>
      ((alookup (some a) r).getD []).foldlM (init := acc) fun acc t => do
        let c ← n.closureE t
        pure (sunion acc c)

/-- Total version (no KeyError): used by theorems and by callers on valid NFAs. -/
def nextStates (n : NFA σ α) (cur : List σ) (a : α) : List σ :=
  cur.foldl (init := []) fun acc q =>
    (n.targets q (some a)).foldl (init := acc) fun acc t => sunion acc (n.closure t)

/-- `current_states.isdisjoint(final_states)` negated. -/
def anyFinal (n : NFA σ α) (cur : List σ) : Bool := cur.any fun q => decide (q ∈ n.finals)

def runFrom (n : NFA σ α) (cur : List σ) (w : List α) : List σ := w.foldl n.nextStates cur

def accepts (n : NFA σ α) (w : List α) : Bool := n.anyFinal (n.runFrom (n.closure n.init) w)

def readAux (n : NFA σ α) : List σ → List α → List (List σ) × Option Exn
  | cur, [] => ([], rejectUnless (n.anyFinal cur))
  | cur, a :: w =>
      match n.nextStatesE cur a with
      | .error e => ([], some e)
      | .ok nxt =>
          let r := readAux n nxt w
          (nxt :: r.1, r.2)

/-- `read_input_stepwise`: yields and terminating exception. -/
def readStepwise (n : NFA σ α) (w : List α) : List (List σ) × Option Exn :=
  match n.closureE n.init with
  | .error e => ([], some e)
  | .ok c0 =>
      let r := n.readAux c0 w
      (c0 :: r.1, r.2)

def readInput (n : NFA σ α) (w : List α) : Res (List σ) :=
  let r := n.readStepwise w
  match r.2 with
  | some e => .error e
  | none => match r.1.getLast? with
            | some c => .ok c
            | none => .error (.py .unboundLocal)

def acceptsInput (n : NFA σ α) (w : List α) : Res Bool :=
  match n.readInput w with
  | .ok _ => .ok true
  | .error (.lib .rejectionException) => .ok false
  | .error e => .error e

def contains (n : NFA σ α) : Option (List α) → Res Bool
  | none => .ok false
  | some w => n.acceptsInput w

/-! ### validation, in the order of the code -/

/-- `_validate_transition_invalid_symbols` then `_validate_transition_end_states`. -/
def validateRow (n : NFA σ α) (paths : List (Option α × List σ)) : Res Unit :=
  (firstErr (akeys paths) fun a =>
    match a with
    | none => .ok ()
    | some a => guardE (decide (a ∈ n.syms)) (.lib .invalidSymbolError)).andThen <|
  firstErr (avals paths) fun ts =>
    firstErr ts fun q => guardE (decide (q ∈ n.states)) (.lib .invalidStateError)

/-- `NFA.validate`. -/
def validate (n : NFA σ α) : Res Unit :=
  (firstErr n.trans fun kv => n.validateRow kv.2).andThen <|
  (guardE (decide (n.init ∈ n.states)) (.lib .invalidStateError)).andThen <|
  (guardE (ahas n.init n.trans || decide (n.states.length ≤ 1)) (.lib .missingStateError)).andThen <|
  guardE (n.finals.all fun q => decide (q ∈ n.states)) (.lib .invalidStateError)

end NFA
end AV
