/-
Model/RxLexer.lean — automata/regex/lexer.py (`TokenRegistry.get_token`, `Lexer.lex`) and the
lexer configuration of parser.py (`get_regex_lexer`, `QuantifierToken.from_match` and the bound
checks of `QuantifierToken.__init__`).

The rule *order* and the pattern sources come from the regenerated table
`AV.Gen.Regex.lexerRules`; the eleven patterns themselves (Python `re`) are modelled by the
hand-written matchers below (`re` is in the trusted base).  Lean core only.
-/
import AutomataVerif.Model.RxToken

namespace AV.Rx

/-- `Lexer.blank_chars` (default). -/
def isBlank (c : Char) : Bool := c == ' ' || c == '\t'

/-- Python `re` `\s` on `str` patterns = `str.isspace` (Unicode white space). -/
def isPySpace (c : Char) : Bool :=
  let n := c.toNat
  (0x9 ≤ n && n ≤ 0xd) || (0x1c ≤ n && n ≤ 0x1f) || n == 0x20 || n == 0x85 || n == 0xa0 ||
  n == 0x1680 || (0x2000 ≤ n && n ≤ 0x200a) || n == 0x2028 || n == 0x2029 || n == 0x202f ||
  n == 0x205f || n == 0x3000

/-- The characters `int(str)` strips (as `isPySpace` except the four ASCII separators). -/
def isIntStrip (c : Char) : Bool :=
  isPySpace c && !(0x1c ≤ c.toNat && c.toNat ≤ 0x1f)

/-- The two groups of `\{(.*?),(.*?)\}` matched at the start of `text`: group 1 runs to the
first comma, group 2 from there to the next `}`; `.` does not match a newline. -/
def quantGroups (text : List Char) : Option (List Char × List Char) :=
  match text with
  | '{' :: rest =>
      let g1 := rest.takeWhile (fun c => c != ',' && c != '\n')
      match rest.drop g1.length with
      | ',' :: rest2 =>
          let g2 := rest2.takeWhile (fun c => c != '}' && c != '\n')
          match rest2.drop g2.length with
          | '}' :: _ => some (g1, g2)
          | _ => none
      | _ => none
  | _ => none

def isAsciiAlnum (c : Char) : Bool := c.isAlphanum

/-- `re.compile(pat).match(text)`: `none` = a pattern this model has no matcher for,
`some none` = no match, `some (some k)` = match of length `k` (always ≥ 1). -/
def matchLen (pat : String) (text : List Char) : Option (Option Nat) :=
  if pat == "\\{(.*?),(.*?)\\}" then
    some ((quantGroups text).map fun g => g.1.length + g.2.length + 3)
  else match pat.toList with
    | ['\\', 'S'] =>
        some (match text with
              | c :: _ => if isPySpace c then none else some 1
              | [] => none)
    | ['\\', x] =>
        if isAsciiAlnum x then none   -- some other character class: not modelled
        else some (match text with
                   | c :: _ => if c == x then some 1 else none
                   | [] => none)
    | _ => none

/-- `TokenRegistry.get_token`: rules are tried in registration order, the first longest match
wins (`best_match.end() < match.end()` is strict). -/
def getTokenAux (text : List Char) :
    List (String × String) → Option (String × Nat) → Res (Option (String × Nat))
  | [], best => .ok best
  | (cls, pat) :: rules, best =>
      match matchLen pat text with
      | none => .error (.py .assertion)      -- pattern outside the model
      | some none => getTokenAux text rules best
      | some (some k) =>
          match best with
          | none => getTokenAux text rules (some (cls, k))
          | some (c0, k0) =>
              if k0 < k then getTokenAux text rules (some (cls, k))
              else getTokenAux text rules (some (c0, k0))

def getToken (text : List Char) : Res (Option (String × Nat)) :=
  getTokenAux text Gen.Regex.lexerRules none

/-! ### `int(str)` as far as a bound can exercise it -/

/-- Decimal digits with single underscores between digits. -/
def pyDigits : List Char → Nat → Bool → Option Nat
  | [], acc, prevDigit => if prevDigit then some acc else none
  | c :: r, acc, prevDigit =>
      if c.isDigit then pyDigits r (acc * 10 + (c.toNat - '0'.toNat)) true
      else if c == '_' && prevDigit then pyDigits r acc false
      else none

def stripLeft (s : List Char) : List Char := s.dropWhile isIntStrip
def strip (s : List Char) : List Char := (stripLeft (stripLeft s).reverse).reverse

/-- `int(s)` for a `str` (base 10).  `none` = `ValueError`.  Non-ASCII decimal digits (which
Python also accepts) are outside the model. -/
def pyInt (s : List Char) : Option Int :=
  match strip s with
  | '-' :: r => (pyDigits r 0 false).map fun n => - (Int.ofNat n)
  | '+' :: r => (pyDigits r 0 false).map Int.ofNat
  | r => (pyDigits r 0 false).map Int.ofNat

/-- `QuantifierToken.from_match` followed by `QuantifierToken.__init__`. -/
def quantFromMatch (m : List Char) : Res (Tok Char) :=
  match quantGroups m with
  | none => .error (.py .attributeError)      -- unreachable: `m` is a match of the pattern
  | some (g1, g2) =>
      -- lower_bound = 0 if not lower_bound_str else int(lower_bound_str)
      match (if g1.isEmpty then some (0 : Int) else pyInt g1) with
      | none => .error (.py .valueError)
      | some lo =>
        -- upper_bound = None if not upper_bound_str else int(upper_bound_str)
        match (if g2.isEmpty then some none else (pyInt g2).map some : Option (Option Int)) with
        | none => .error (.py .valueError)
        | some hi =>
            if lo < 0 then .error (.lib .invalidRegexError)
            else match hi with
              | none => .ok (.quant lo.toNat none)
              | some h =>
                  if h < lo then .error (.lib .invalidRegexError)
                  else .ok (.quant lo.toNat (some h.toNat))

/-- The token factory registered for a class (`from_match` / the two lambdas). -/
def mkToken (cls : String) (m : List Char) : Res (Tok Char) :=
  if cls == "LeftParen" then .ok .lparen
  else if cls == "RightParen" then .ok .rparen
  else if cls == "UnionToken" then .ok .union
  else if cls == "IntersectionToken" then .ok .inter
  else if cls == "ShuffleToken" then .ok .shuffle
  else if cls == "KleeneStarToken" then .ok .star
  else if cls == "KleenePlusToken" then .ok .plus
  else if cls == "OptionToken" then .ok .opt
  else if cls == "QuantifierToken" then quantFromMatch m
  else if cls == "WildcardToken" then .ok .wildcard
  else if cls == "StringToken" then .ok (.str m)
  else .error (.py .assertion)

/-- `Lexer.lex`: the `while pos < len(text)` loop (`fuel` ≥ number of characters suffices:
every iteration consumes at least one). -/
def lexAux : Nat → List Char → Res (List (Tok Char))
  | 0, _ => .ok []
  | _ + 1, [] => .ok []
  | fuel + 1, c :: rest =>
      match getToken (c :: rest) with
      | .error e => .error e
      | .ok (some (cls, k)) =>
          match mkToken cls ((c :: rest).take k) with
          | .error e => .error e
          | .ok t =>
              match lexAux fuel ((c :: rest).drop k) with
              | .error e => .error e
              | .ok ts => .ok (t :: ts)
      | .ok none =>
          if isBlank c then lexAux fuel rest
          else .error (.lib .lexerError)

def lex (text : List Char) : Res (List (Tok Char)) := lexAux text.length text

end AV.Rx
