/-
Model/Basic.lean — shared executable vocabulary of the model (Lean core only).

Python → Lean conventions (DESIGN.md §3):
* `set`/`frozenset`  ↦ `List` used as a set (theorems speak about membership only);
* `dict`/`frozendict` ↦ association list, first match wins, insertion order kept;
* partial Python operations ↦ `Except Exn _` with explicit error branches;
* work-list loops ↦ structural recursion on fuel bounded by a finite universe.
-/
import AutomataVerif.Generated.Exceptions

namespace AV

/-- Python built-in exceptions the modelled code can raise (crashes). -/
inductive PyErr
  | keyError | indexError | typeError | unboundLocal | valueError
  | attributeError | stopIteration | assertion
  deriving DecidableEq, Repr, Inhabited

/-- Anything a modelled call can raise: a library exception (generated from
`automata/base/exceptions.py` & friends) or a Python built-in one. -/
inductive Exn
  | lib (e : Gen.Err)
  | py (e : PyErr)
  deriving DecidableEq, Repr, Inhabited

abbrev Res (β : Type) := Except Exn β

def Exn.name : Exn → String
  | .lib e => e.name
  | .py .keyError => "KeyError"
  | .py .indexError => "IndexError"
  | .py .typeError => "TypeError"
  | .py .unboundLocal => "UnboundLocalError"
  | .py .valueError => "ValueError"
  | .py .attributeError => "AttributeError"
  | .py .stopIteration => "StopIteration"
  | .py .assertion => "AssertionError"

/-- `if not ok: raise RejectionException` at the end of a reader generator. -/
def rejectUnless (b : Bool) : Option Exn :=
  match b with
  | true => none
  | false => some (.lib .rejectionException)

/-- Sequencing of two checks: the first error wins. -/
def Res.andThen (a b : Res Unit) : Res Unit :=
  match a with
  | .ok _ => b
  | .error e => .error e

/-- `if not c: raise e`. -/
def guardE (c : Bool) (e : Exn) : Res Unit := if c then .ok () else .error e

/-- `for x in l: check(x)` — the first failing check raises. -/
def firstErr {β : Type} (l : List β) (f : β → Res Unit) : Res Unit :=
  l.foldl (fun acc x => Res.andThen acc (f x)) (.ok ())

/-- `d.get(k)` on an association list (first match wins). -/
def alookup {κ β : Type} [DecidableEq κ] (k : κ) : List (κ × β) → Option β
  | [] => none
  | (k', v) :: t => if k' = k then some v else alookup k t

/-- `k in d`. -/
def ahas {κ β : Type} [DecidableEq κ] (k : κ) (d : List (κ × β)) : Bool :=
  (alookup k d).isSome

/-- `d[k] = v` keeping Python's insertion order (update in place, else append). -/
def ainsert {κ β : Type} [DecidableEq κ] (k : κ) (v : β) : List (κ × β) → List (κ × β)
  | [] => [(k, v)]
  | (k', v') :: t => if k' = k then (k, v) :: t else (k', v') :: ainsert k v t

/-- `d.keys()` in insertion order. -/
def akeys {κ β : Type} (d : List (κ × β)) : List κ := d.map Prod.fst

/-- `d.values()` in insertion order. -/
def avals {κ β : Type} (d : List (κ × β)) : List β := d.map Prod.snd

/-- Set insertion for lists used as sets: append when new. -/
def sinsert {β : Type} [DecidableEq β] (x : β) (l : List β) : List β :=
  if x ∈ l then l else l ++ [x]

/-- Set union (keeps `l` first, then the new elements of `r` in order, without repeats). -/
def sunion {β : Type} [DecidableEq β] (l r : List β) : List β :=
  r.foldl (fun acc x => sinsert x acc) l

/-- Remove duplicates keeping first occurrences. -/
def dedup {β : Type} [DecidableEq β] (l : List β) : List β :=
  sunion [] l

/-- Work-list breadth-first search (`_bfs_states`, `get_reachable_nodes`,
`_compute_reachable_states`, …).  `vis` is kept in discovery order.
`fuel` bounds the number of pops; `bfs` below supplies a sufficient bound. -/
def bfsAux {σ : Type} [DecidableEq σ] (succ : σ → List σ) :
    Nat → List σ → List σ → List σ
  | 0, _, vis => vis
  | _ + 1, [], vis => vis
  | fuel + 1, q :: work, vis =>
      let new := dedup ((succ q).filter (fun t => decide (t ∉ vis)))
      bfsAux succ fuel (work ++ new) (vis ++ new)

/-- BFS from `srcs` inside the finite universe `univ` (every state ever met must be
in `univ` for the fuel to suffice; that is a hypothesis of the closure theorem). -/
def bfs {σ : Type} [DecidableEq σ] (succ : σ → List σ) (univ : List σ) (srcs : List σ) :
    List σ :=
  let s := dedup srcs
  bfsAux succ (univ.length + 1) s s

/-- BFS with an explicit pop budget (for implicit graphs whose universe is too big to list). -/
def bfsN {σ : Type} [DecidableEq σ] (succ : σ → List σ) (fuel : Nat) (srcs : List σ) : List σ :=
  let s := dedup srcs
  bfsAux succ fuel s s

/-- Index of the first occurrence (`l.length` when absent). -/
def indexOf {β : Type} [DecidableEq β] (x : β) : List β → Nat
  | [] => 0
  | y :: t => if y = x then 0 else indexOf x t + 1

end AV
