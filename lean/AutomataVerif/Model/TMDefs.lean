/-
Model/TMDefs.lean — automata/tm/{tape,configuration,tm,dtm,ntm,mntm}.py: data.

* `Dir`      : the direction literals `"L"`, `"R"`, `"N"`; `bad` stands for any other value
               (validation rejects it; `TMTape.move` treats it like `"N"`: none of its
               `if/elif` branches fires).
* `Tape`     : `TMTape` exactly — a tuple of cells, the blank symbol and an index.
               `Tape.init` is `TMTape.__init__` (pads with blanks until there is a cell
               under the cursor), `read`/`write`/`move` are the three methods.
* `Cfg`/`MCfg` : `TMConfiguration` / `MTMConfiguration` (frozen dataclasses: equality and
               hashing are structural, which is `DecidableEq` here).
* `DTM`/`NTM`/`MNTM` : the constructor parameters (sets are lists, dicts association lists).
* generators : `Resume`/`genRun`/`genStart` — a Python generator observed through a
               bounded number of `next()` calls (halting is never assumed).
Lean core only.
-/
import AutomataVerif.Model.Basic

namespace AV.TM

/-- Direction literal of a transition. -/
inductive Dir
  | L | R | N
  | bad   -- any other Python value
  deriving DecidableEq, Repr, Inhabited

/-- `TMTape`: `tape` (tuple), `blank_symbol`, `current_position`. -/
structure Tape (Γ : Type) where
  cells : List Γ
  blank : Γ
  pos : Nat
  deriving DecidableEq, Repr

namespace Tape
variable {Γ : Type}

/-- `TMTape.__init__(tape, blank_symbol, current_position)`:
`while len(tape) <= current_position: tape.append(blank_symbol)`. -/
def init (cells : List Γ) (blank : Γ) (pos : Nat := 0) : Tape Γ :=
  { cells := cells ++ List.replicate (pos + 1 - cells.length) blank, blank := blank, pos := pos }

/-- `read_symbol`: `self.tape[self.current_position]`.  The constructor guarantees a cell
under the cursor (`Tape.WF`, proved to be a class invariant in `Proofs/TMTape.lean`), so the
`IndexError` of the subscript is unreachable; the default of `getD` is never used on a tape
built by `init`/`write`/`move`. -/
def read (t : Tape Γ) : Γ := t.cells.getD t.pos t.blank

/-- `write_symbol`: `tape_elements[pos] = s`, then the constructor again. -/
def write (t : Tape Γ) (s : Γ) : Tape Γ := init (t.cells.set t.pos s) t.blank t.pos

/-- `move(direction)`, with the integer arithmetic of the code:
```
new_position = pos (+1 for "R", -1 for "L", unchanged otherwise)
if new_position == -1: new_tape.insert(0, blank); new_position += 1
if new_position == len(new_tape): new_tape.append(blank)
```
then the constructor. -/
def move (t : Tape Γ) (d : Dir) : Tape Γ :=
  let np : Int := match d with
    | .R => (t.pos : Int) + 1
    | .L => (t.pos : Int) - 1
    | _ => (t.pos : Int)
  let cells1 := if np = -1 then t.blank :: t.cells else t.cells
  let np1 : Int := if np = -1 then np + 1 else np
  let cells2 := if np1 = (cells1.length : Int) then cells1 ++ [t.blank] else cells1
  init cells2 t.blank np1.toNat

/-- The class invariant of `TMTape`: there is a cell under the cursor. -/
def WF (t : Tape Γ) : Prop := t.pos < t.cells.length

end Tape

/-- `TMConfiguration(state, tape)`. -/
structure Cfg (σ Γ : Type) where
  state : σ
  tape : Tape Γ
  deriving DecidableEq, Repr

/-- `MTMConfiguration(state, tapes)`. -/
structure MCfg (σ Γ : Type) where
  state : σ
  tapes : List (Tape Γ)
  deriving DecidableEq, Repr

/-- `DTM(states, input_symbols, tape_symbols, transitions, initial_state, blank_symbol,
final_states)`; `transitions[q][s] = (q', s', d)`. -/
structure DTM (σ Γ : Type) where
  states : List σ
  inputSyms : List Γ
  tapeSyms : List Γ
  trans : List (σ × List (Γ × (σ × Γ × Dir)))
  init : σ
  blank : Γ
  finals : List σ
  deriving Repr

/-- `NTM(...)`; `transitions[q][s]` is a set of `(q', s', d)`. -/
structure NTM (σ Γ : Type) where
  states : List σ
  inputSyms : List Γ
  tapeSyms : List Γ
  trans : List (σ × List (Γ × List (σ × Γ × Dir)))
  init : σ
  blank : Γ
  finals : List σ
  deriving Repr

/-- `MNTM(..., n_tapes, ...)`; `transitions[q][(s₁,…,sₙ)]` is a *list* of
`(q', ((s'₁,d₁),…,(s'ₙ,dₙ)))`. -/
structure MNTM (σ Γ : Type) where
  states : List σ
  inputSyms : List Γ
  tapeSyms : List Γ
  nTapes : Nat
  trans : List (σ × List (List Γ × List (σ × List (Γ × Dir))))
  init : σ
  blank : Γ
  finals : List σ
  deriving Repr

/-! ### generators observed through `next()` -/

/-- How an observed generator stands after the `next()` calls made so far. -/
inductive GenEnd
  | returned            -- `StopIteration`
  | raised (e : Exn)    -- an exception left the generator
  | running             -- still suspended at a `yield` (the budget of calls is used up)
  deriving DecidableEq, Repr, Inhabited

/-- What one `next()` does to a generator suspended in state `s`. -/
inductive Resume (S Y : Type)
  | ret
  | raise (e : Exn)
  | yield (y : Y) (s : S)

/-- `n` calls of `next()` on a generator suspended in state `s`: the yielded values and how
it stands afterwards. -/
def genRun {S Y : Type} (resume : S → Resume S Y) : Nat → S → List Y × GenEnd
  | 0, _ => ([], .running)
  | n + 1, s =>
    match resume s with
    | .ret => ([], .returned)
    | .raise e => ([], .raised e)
    | .yield y s' =>
      let r := genRun resume n s'
      (y :: r.1, r.2)

/-- A generator whose first `next()` yields `y0` and suspends in `s0`. -/
def genStart {S Y : Type} (resume : S → Resume S Y) (y0 : Y) (s0 : S) : Nat → List Y × GenEnd
  | 0 => ([], .running)
  | n + 1 =>
    let r := genRun resume n s0
    (y0 :: r.1, r.2)

/-- Three-valued verdict of a bounded run. -/
inductive Verdict
  | accept | reject | outOfFuel
  deriving DecidableEq, Repr, Inhabited

/-- `accepts_input` on top of a bounded observation of `read_input_stepwise`: the generator
returning is acceptance, `RejectionException` is caught and means rejection, any other
exception propagates. -/
def verdictOf : GenEnd → Res Verdict
  | .returned => .ok .accept
  | .raised (.lib .rejectionException) => .ok .reject
  | .raised e => .error e
  | .running => .ok .outOfFuel

end AV.TM
