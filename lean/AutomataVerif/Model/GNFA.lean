/-
Model/GNFA.lean — automata/fa/gnfa.py: `from_dfa`, `from_nfa`, `_isbracket_req`,
`_find_min_connected_node`, `to_regex` (Lean core only).

Mirrors the code function by function:
* `FA._add_new_state`            ↦ `addNewState` (`natName k` = the name the Python int `k` has in `σ`);
* label merging of `from_dfa`    ↦ `mergeDfaRow`; of `from_nfa` ↦ `mergeNfaLabel`, `mergeNfaRow`;
* the (textually identical) second half of both constructors ↦ `finishBuild`;
* `_isbracket_req`               ↦ `isBracketReq`;
* `_find_min_connected_node`     ↦ `stateDegrees`, `argminFirst`, `findMin` — the iteration order of
  the freshly built set `states - {initial, final}` decides ties, it is the argument `ord`;
* the body of the double loop of `to_regex` ↦ `ripLabel` (every string rule as written) and `ripPair`;
* one iteration of the `while` loop ↦ `ripStep`; the loop ↦ `toRegexLoop`; `to_regex` ↦ `toRegex`.

The loops are generic in the label type `ℓ` and in the label rule `comb` (the code is
`ℓ := Str`, `comb := ripLabel`); the theorems instantiate `ℓ := Rx` for the AST level.
`d[k]` on a missing key is `KeyError`, `set.remove` of a non-member is `KeyError`,
`min` of an empty dict is `ValueError`.
-/
import AutomataVerif.Model.GNFAValidate
import AutomataVerif.Model.DFA
import AutomataVerif.Model.NFA

namespace AV
namespace GNFA
variable {σ ℓ : Type} [DecidableEq σ]

/-! ### `_isbracket_req` -/

/-- The loop of `_isbracket_req` with `bracket_open = d`. -/
def isBracketReqAux : Int → Str → Bool
  | _, [] => false
  | d, c :: s =>
    let d' := if c = '(' then d + 1 else if c = ')' then d - 1 else d
    if d' = 0 ∧ c = '|' then true else isBracketReqAux d' s

/-- `_isbracket_req(regex)`: is there a `|` outside all brackets? -/
def isBracketReq (s : Str) : Bool := isBracketReqAux 0 s

/-! ### `FA._add_new_state` -/

/-- `while new_state in state_set: new_state += 1`; the loop ends after at most
`|state_set| + 1` tests when `natName` is injective (pigeonhole), which is the fuel. -/
def addNewStateAux (natName : Nat → σ) (states : List σ) : Nat → Nat → Nat
  | 0, k => k
  | fuel + 1, k =>
    if natName k ∈ states then addNewStateAux natName states fuel (k + 1) else k

/-- `_add_new_state(state_set, start)`: the integer chosen (the set becomes
`state_set ∪ {natName k}`). -/
def addNewState (natName : Nat → σ) (states : List σ) (start : Nat) : Nat :=
  addNewStateAux natName states (states.length + 1) start

/-! ### `from_dfa` / `from_nfa` -/

/-- `from_dfa`, body of `for input_symbol, to_state in row.items()`: a further symbol on the
same target is appended with `|`. -/
def mergeDfaStep (acc : List (σ × Str)) (e : Char × σ) : List (σ × Str) :=
  match alookup e.2 acc with
  | some old => ainsert e.2 (old ++ '|' :: [e.1]) acc
  | none => ainsert e.2 [e.1] acc

/-- `from_dfa`: `gnfa_transitions` of one state, in the iteration order of the row. -/
def mergeDfaRow (row : List (Char × σ)) : List (σ × Str) := row.foldl mergeDfaStep []

/-- `input_symbol` as a string (`none` is `""`). -/
def symStr : Option Char → Str
  | none => []
  | some a => [a]

/-- `from_nfa`: the three-way `if` that merges `input_symbol` into an existing label. -/
def mergeNfaLabel (old : Str) (sym : Option Char) : Str :=
  if old = [] ∧ symStr sym ≠ [] then symStr sym ++ ['?']
  else if old ≠ [] ∧ symStr sym = [] then
    (if isBracketReq old then '(' :: old ++ [')', '?'] else old ++ ['?'])
  else old ++ '|' :: symStr sym

/-- `from_nfa`, body of `for to_state in to_states` for the symbol `sym`. -/
def mergeNfaStep (sym : Option Char) (acc : List (σ × Str)) (t : σ) : List (σ × Str) :=
  match alookup t acc with
  | some old => ainsert t (mergeNfaLabel old sym) acc
  | none => ainsert t (symStr sym) acc

/-- `from_nfa`: `gnfa_transitions` of one state (`for input_symbol, to_states in row.items():
for to_state in to_states`). -/
def mergeNfaRow (row : List (Option Char × List σ)) : List (σ × Str) :=
  row.foldl (fun acc e => e.2.foldl (mergeNfaStep e.1) acc) []

/-- `Dict[state, str]` seen as `Dict[state, Optional[str]]` (the `cast`). -/
def castRow (row : List (σ × Str)) : List (σ × Option Str) := row.map fun e => (e.1, some e.2)

/-- `for q in l: rows[q] = f(rows[q])` — the shape of the two row-updating loops below
(`rows[q]` on a missing row raises `KeyError`). -/
def updRows {ρ : Type} (f : ρ → ρ) (l : List σ) (rows : List (σ × ρ)) : Res (List (σ × ρ)) :=
  l.foldlM (fun rows q =>
    match alookup q rows with
    | none => .error (.py .keyError)
    | some row => .ok (ainsert q (f row) rows)) rows

/-- `for state in final_states: new_gnfa_transitions[state][new_final_state] = ""`. -/
def addFinalEdges (qf : σ) (finals : List σ) (rows : List (σ × List (σ × Option Str))) :
    Res (List (σ × List (σ × Option Str))) :=
  updRows (fun row => ainsert qf (some []) row) finals rows

/-- `for leftover_state in gnfa_states - row.keys(): if leftover_state is not new_initial_state:
row[leftover_state] = None`. -/
def fillRow (gstates : List σ) (qi : σ) (row : List (σ × Option Str)) : List (σ × Option Str) :=
  (gstates.filter fun t => decide (t ∉ akeys row)).foldl
    (fun row t => if t ≠ qi then ainsert t none row else row) row

/-- `for state in gnfa_states - {new_final_state}: …`. -/
def fillNone (gstates : List σ) (qi qf : σ) (rows : List (σ × List (σ × Option Str))) :
    Res (List (σ × List (σ × Option Str))) :=
  updRows (fillRow gstates qi) (gstates.filter fun q => decide (q ≠ qf)) rows

/-- The second half of `from_dfa` / `from_nfa`: two new states, the ε-edges from the new
initial state and into the new final state, `None` for every other pair, then the validating
constructor. -/
def finishBuild (rxValid : Str → Res Bool) (natName : Nat → σ) (srcStates : List σ)
    (syms : List Char) (rows : List (σ × List (σ × Option Str))) (init : σ) (finals : List σ) :
    Res (GNFA σ Str) :=
  let states0 := dedup srcStates
  let k0 := addNewState natName states0 0
  let qi := natName k0
  let states1 := states0 ++ [qi]
  let k1 := addNewState natName states1 k0
  let qf := natName k1
  let gstates := states1 ++ [qf]
  let rows := ainsert qi [(init, some [])] rows
  match addFinalEdges qf finals rows with
  | .error e => .error e
  | .ok rows =>
    match fillNone gstates qi qf rows with
    | .error e => .error e
    | .ok rows =>
      let g : GNFA σ Str :=
        { states := gstates, syms := syms, trans := rows, init := qi, final := qf }
      match g.validateStr rxValid with
      | .ok _ => .ok g
      | .error e => .error e

/-- `from_dfa`: the row built for `state` (`dict()` when the state has no row). -/
def dfaRowFor (d : DFA σ Char) (q : σ) : List (σ × Option Str) :=
  match alookup q d.trans with
  | some row => castRow (mergeDfaRow row)
  | none => []

/-- The first loop of `from_dfa`: `for state in target_dfa.states`. -/
def dfaRows (d : DFA σ Char) : List (σ × List (σ × Option Str)) :=
  (dedup d.states).foldl (fun rows q => ainsert q (dfaRowFor d q) rows) []

/-- `GNFA.from_dfa(target_dfa)`. -/
def fromDFA (rxValid : Str → Res Bool) (natName : Nat → σ) (d : DFA σ Char) : Res (GNFA σ Str) :=
  finishBuild rxValid natName d.states d.syms (dfaRows d) d.init d.finals

/-- `from_nfa`: the row built for `state`. -/
def nfaRowFor (n : NFA σ Char) (q : σ) : List (σ × Option Str) :=
  match alookup q n.trans with
  | some row => castRow (mergeNfaRow row)
  | none => []

/-- The first loop of `from_nfa`: `for state in target_nfa.states`. -/
def nfaRows (n : NFA σ Char) : List (σ × List (σ × Option Str)) :=
  (dedup n.states).foldl (fun rows q => ainsert q (nfaRowFor n q) rows) []

/-- `GNFA.from_nfa(target_nfa)`. -/
def fromNFA (rxValid : Str → Res Bool) (natName : Nat → σ) (n : NFA σ Char) : Res (GNFA σ Str) :=
  finishBuild rxValid natName n.states n.syms (nfaRows n) n.init n.finals

/-! ### `_find_min_connected_node` -/

abbrev Table (σ ℓ : Type) := List (σ × List (σ × Option ℓ))

/-- `state_degree[q] += 1`. -/
def degInc (deg : List (σ × Nat)) (q : σ) : Res (List (σ × Nat)) :=
  match alookup q deg with
  | none => .error (.py .keyError)
  | some n => .ok (ainsert q (n + 1) deg)

/-- The inner loop over `transitions[state].items()`. -/
def rowDegrees (init final : σ) (q : σ) (row : List (σ × Option ℓ)) (deg : List (σ × Nat)) :
    Res (List (σ × Nat)) :=
  row.foldlM (fun deg e =>
    match e.2 with
    | none => .ok deg
    | some _ =>
      (if q ≠ init then degInc deg q else .ok deg) >>= fun deg =>
      if e.1 ≠ final then degInc deg e.1 else .ok deg) deg

/-- `state_degree` after the double loop; `stateSet` is `states - {initial, final}` in its
iteration order. -/
def stateDegrees (states : List σ) (tr : Table σ ℓ) (init final : σ) (stateSet : List σ) :
    Res (List (σ × Nat)) :=
  (states.filter fun q => decide (q ≠ final)).foldlM (fun deg q =>
    match alookup q tr with
    | none => .error (.py .keyError)
    | some row => rowDegrees init final q row deg) (stateSet.map fun q => (q, 0))

/-- `min(d, key=d.get)` on a non-empty dict: the first key of minimal value in dict order. -/
def argminAux (best : σ) (bn : Nat) : List (σ × Nat) → σ
  | [] => best
  | (q, n) :: t => if n < bn then argminAux q n t else argminAux best bn t

def argminFirst : List (σ × Nat) → Res σ
  | [] => .error (.py .valueError)
  | (q, n) :: t => .ok (argminAux q n t)

/-- `states - {initial_state, final_state}` (before the order of the new set is applied). -/
def innerStates (states : List σ) (init final : σ) : List σ :=
  states.filter fun q => decide (q ≠ init) && decide (q ≠ final)

/-- `_find_min_connected_node(states, transitions, initial_state, final_state)`; `ord` is the
iteration order CPython gives the set `states - {initial_state, final_state}`. -/
def findMin (states : List σ) (tr : Table σ ℓ) (init final : σ) (ord : List σ → List σ) : Res σ :=
  stateDegrees states tr init final (ord (innerStates states init final)) >>= argminFirst

/-- Every state some iteration order makes `_find_min_connected_node` return: the states of
minimal degree. -/
def minCands (states : List σ) (tr : Table σ ℓ) (init final : σ) : Res (List σ) :=
  stateDegrees states tr init final (innerStates states init final) >>= fun deg =>
  match deg with
  | [] => .error (.py .valueError)
  | (q, n) :: t =>
    let m := (t.map Prod.snd).foldl min n
    .ok (((q, n) :: t).filterMap fun e => if e.2 = m then some e.1 else none)

/-! ### `to_regex` -/

/-- `if self._isbracket_req(r): r = f"({r})"` (applied to `r1` and to `r3`). -/
def bracketIfReq (r : Str) : Str := if isBracketReq r then '(' :: r ++ [')'] else r

/-- The `r2` rule: `None ↦ ""`, one character `↦ r2*`, otherwise `(r2)*`. -/
def starPart : Option Str → Str
  | none => []
  | some r2 => if r2.length = 1 then r2 ++ ['*'] else '(' :: r2 ++ [')', '*']

/-- The `r4` rule: `None ↦ ""`, a top-level union `↦ |(r4)`, `"" ↦ ?`, otherwise `|r4`. -/
def altPart : Option Str → Str
  | none => []
  | some r4 =>
    if isBracketReq r4 then '|' :: '(' :: r4 ++ [')']
    else if r4 = [] then ['?']
    else '|' :: r4

/-- String assembly of `to_regex` for one pair `(q_i, q_j)`: the value assigned to
`new_transitions[q_i][q_j]` (`r1 = [q_i][q_rip]`, `r2 = [q_rip][q_rip]`, `r3 = [q_rip][q_j]`,
`r4 = [q_i][q_j]`). -/
def ripLabel (r1 r2 r3 r4 : Option Str) : Option Str :=
  match r1, r3 with
  | some r1, some r3 =>
    let a := bracketIfReq r1
    let b := starPart r2
    let c := bracketIfReq r3
    let d := altPart r4
    -- fix 75cecc0: an empty concatenation next to a union/option is written "()"
    let a : Str := if d ≠ [] ∧ a ++ b ++ c = [] then ['(', ')'] else a
    if d = ['?'] ∧ a.length + b.length + c.length > 1 then
      some ('(' :: a ++ b ++ c ++ ')' :: d)
    else
      some (a ++ b ++ c ++ d)
  | _, _ => r4

/-- `new_transitions[p][q]`. -/
def getE (tr : Table σ ℓ) (p q : σ) : Res (Option ℓ) :=
  match alookup p tr with
  | none => .error (.py .keyError)
  | some row =>
    match alookup q row with
    | none => .error (.py .keyError)
    | some l => .ok l

/-- `new_transitions[p][q] = v`. -/
def setE (tr : Table σ ℓ) (p q : σ) (v : Option ℓ) : Res (Table σ ℓ) :=
  match alookup p tr with
  | none => .error (.py .keyError)
  | some row => .ok (ainsert p (ainsert q v row) tr)

/-- `del d[k]` on an association list. -/
def adel {κ β : Type} [DecidableEq κ] (k : κ) (d : List (κ × β)) : List (κ × β) :=
  d.filter fun e => decide (e.1 ≠ k)

/-- `del new_transitions[q]`. -/
def delRow (tr : Table σ ℓ) (q : σ) : Res (Table σ ℓ) :=
  if ahas q tr then .ok (adel q tr) else .error (.py .keyError)

/-- `del new_transitions[p][q]`. -/
def delEntry (tr : Table σ ℓ) (p q : σ) : Res (Table σ ℓ) :=
  match alookup p tr with
  | none => .error (.py .keyError)
  | some row => if ahas q row then .ok (ainsert p (adel q row) tr) else .error (.py .keyError)

/-- Body of the `for q_i, q_j in product(…)` loop. -/
def ripPair (comb : Option ℓ → Option ℓ → Option ℓ → Option ℓ → Option ℓ) (qrip : σ)
    (tr : Table σ ℓ) (qi qj : σ) : Res (Table σ ℓ) :=
  getE tr qi qrip >>= fun r1 =>
  getE tr qrip qrip >>= fun r2 =>
  getE tr qrip qj >>= fun r3 =>
  getE tr qi qj >>= fun r4 =>
  setE tr qi qj (comb r1 r2 r3 r4)

/-- `itertools.product(xs, ys)`. -/
def pairs (xs ys : List σ) : List (σ × σ) := xs.flatMap fun x => ys.map fun y => (x, y)

/-- One iteration of the `while` loop of `to_regex` once `q_rip` is chosen. -/
def ripStep (comb : Option ℓ → Option ℓ → Option ℓ → Option ℓ → Option ℓ) (init final : σ)
    (states : List σ) (tr : Table σ ℓ) (qrip : σ) : Res (List σ × Table σ ℓ) :=
  if qrip ∉ states then .error (.py .keyError) else
  let states' := states.filter fun q => decide (q ≠ qrip)
  let froms := states'.filter fun q => decide (q ≠ final)
  let tos := states'.filter fun q => decide (q ≠ init)
  (pairs froms tos).foldlM (fun tr p => ripPair comb qrip tr p.1 p.2) tr >>= fun tr =>
  delRow tr qrip >>= fun tr =>
  froms.foldlM (fun tr p => delEntry tr p qrip) tr >>= fun tr =>
  .ok (states', tr)

/-- The `while len(new_states) > 2` loop.  `fuel` = number of states above two; `k` counts
the iterations (the set order `ord k` may differ each time); the states ripped so far are
returned with the final label (for the correspondence check). -/
def toRegexLoop (comb : Option ℓ → Option ℓ → Option ℓ → Option ℓ → Option ℓ) (init final : σ)
    (ord : Nat → List σ → List σ) :
    Nat → Nat → List σ → Table σ ℓ → List σ → Res (List σ × Option ℓ)
  | 0, _, _, tr, rips => getE tr init final >>= fun l => .ok (rips, l)
  | fuel + 1, k, states, tr, rips =>
    if states.length > 2 then
      findMin states tr init final (ord k) >>= fun q =>
      ripStep comb init final states tr q >>= fun st =>
      toRegexLoop comb init final ord fuel (k + 1) st.1 st.2 (rips ++ [q])
    else getE tr init final >>= fun l => .ok (rips, l)

/-- `to_regex` for an arbitrary label rule, with the rip sequence. -/
def toRegexTrace (comb : Option ℓ → Option ℓ → Option ℓ → Option ℓ → Option ℓ) (g : GNFA σ ℓ)
    (ord : Nat → List σ → List σ) : Res (List σ × Option ℓ) :=
  let states := dedup g.states
  toRegexLoop comb g.init g.final ord (states.length - 2) 0 states g.trans []

/-- `to_regex` for an arbitrary label rule (`none` = Python `None`: no path at all). -/
def toRegexG (comb : Option ℓ → Option ℓ → Option ℓ → Option ℓ → Option ℓ) (g : GNFA σ ℓ)
    (ord : Nat → List σ → List σ) : Res (Option ℓ) :=
  toRegexTrace comb g ord >>= fun r => .ok r.2

/-- `GNFA.to_regex()`. -/
def toRegex (g : GNFA σ Str) (ord : Nat → List σ → List σ) : Res (Option Str) :=
  toRegexG ripLabel g ord

/-- All results of `to_regex` over every tie-break of `_find_min_connected_node`. -/
def toRegexAllLoop (comb : Option ℓ → Option ℓ → Option ℓ → Option ℓ → Option ℓ) (init final : σ) :
    Nat → List σ → Table σ ℓ → List (Res (Option ℓ))
  | 0, _, tr => [getE tr init final]
  | fuel + 1, states, tr =>
    if states.length > 2 then
      match minCands states tr init final with
      | .error e => [.error e]
      | .ok cands =>
        cands.flatMap fun q =>
          match ripStep comb init final states tr q with
          | .error e => [.error e]
          | .ok st => toRegexAllLoop comb init final fuel st.1 st.2
    else [getE tr init final]

def toRegexAll (g : GNFA σ Str) : List (Res (Option Str)) :=
  let states := dedup g.states
  toRegexAllLoop ripLabel g.init g.final (states.length - 2) states g.trans

/-- The iteration order that puts `q` first (used by the driver to replay the tie-breaks the
real code made). -/
def frontOrd (rips : List σ) (k : Nat) (l : List σ) : List σ :=
  match rips[k]? with
  | none => l
  | some q => if q ∈ l then q :: l.filter (fun x => decide (x ≠ q)) else l

end GNFA
end AV
