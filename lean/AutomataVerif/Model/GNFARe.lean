/-
Model/GNFARe.lean — `automata/regex/regex.py: _validate` as it is written, on top of the C10/C11
model of `regex.validate` (the real lexer with the quantifier rule `\{(.*?),(.*?)\}` and
`validate_tokens`):

    def _validate(regex):
        try:
            validate(regex)
        except exceptions.InvalidRegexError:
            return False
        return True

`LexerError` (white space other than blank / tab) and `ValueError` (`int()` on a non-numeric
quantifier bound) are not subclasses of `InvalidRegexError` and escape.

This is the instance of the parameter `rxValid` of `GNFA.validate` / `from_dfa` / `from_nfa` that
shares the lexer and validator model with C10 and C11; `simpleRxValid` (Model/GNFAValidate.lean),
the earlier stand-alone character-level model, is proved equal to it on every string without `{`
(Proofs/GnfaReValidate.lean).  Lean core only (the driver `drv_gnfa` runs it).
-/
import AutomataVerif.Model.GNFA
import AutomataVerif.Model.RxCompile

namespace AV.GNFA

/-- `re._validate(regex)`: `True` / `False`, or the exception that escapes it. -/
def reValidate (s : Str) : Res Bool :=
  match AV.Rx.validate s with
  | .ok _ => .ok true
  | .error (.lib .invalidRegexError) => .ok false
  | .error e => .error e

end AV.GNFA
