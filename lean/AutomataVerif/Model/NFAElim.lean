/-
Model/NFAElim.lean — automata/fa/nfa.py: `_compute_reachable_states`, `_eliminate_lambda`
(Lean core only), as used by the quotient constructions of C08.  Everything lives in the
namespace `AV.NFAElim` (C07 has its own model of `eliminate_lambda` in Model/Convert.lean).
-/
import AutomataVerif.Model.NFATable

namespace AV.NFAElim
open AV
variable {σ α : Type} [DecidableEq σ] [DecidableEq α]

/-- Successors of `q` in a table: `chain.from_iterable(state_dict.values())`
(`transitions.get(state)`; a missing or empty row has none). -/
def succ (t : Tbl σ α) (q : σ) : List σ := ((alookup q t).getD []).flatMap fun e => e.2

/-- Every name occurring in a table (keys and targets): the finite universe of the BFS. -/
def nodes (t : Tbl σ α) : List σ :=
  dedup (akeys t ++ t.flatMap fun kv => kv.2.flatMap fun e => e.2)

/-- `_compute_reachable_states(initial_state, transitions)`: work-list BFS from the
initial state over all symbols (the empty string included). -/
def reachable (init : σ) (t : Tbl σ α) : List σ :=
  bfs (succ t) (init :: nodes t) [init]

/-- Body of the `for state in self.states` loop of `_eliminate_lambda`.
`acc = (new_transitions, new_final_states)`; `new_final_states` grows inside the loop. -/
def stateStep (n : NFA σ α) (acc : Tbl σ α × List σ) (state : σ) : Res (Tbl σ α × List σ) := do
  let cl ← n.closureE state
  -- lambda_enclosure = lambda_closures[state] - {state}
  let encl := cl.filter fun p => !decide (p = state)
  let t ← n.syms.foldlM (init := acc.1) fun t a => do
    let nxt ← n.nextStatesE encl a
    -- `if next_current_states:` … `state_transition_dict[input_symbol].update / = …`
    pure (match nxt with
          | [] => t
          | _ :: _ => Tbl.addTargets t state (some a) nxt)
  -- `if not new_final_states.isdisjoint(lambda_enclosure): new_final_states.add(state)`
  let fin := if encl.any fun p => decide (p ∈ acc.2) then sinsert state acc.2 else acc.2
  -- `if state in new_transitions: new_transitions[state].pop("", None)`
  let t := match alookup state t with
    | some row => ainsert state (aerase none row) t
    | none => t
  pure (t, fin)

/-- `_eliminate_lambda`: `(reachable_states, new_transitions, reachable_final_states)`. -/
def core (n : NFA σ α) : Res (List σ × Tbl σ α × List σ) := do
  let (t, fin) ← n.states.foldlM (stateStep n) (n.trans, n.finals)
  let reach := reachable n.init t
  let rfin := reach.filter fun q => decide (q ∈ fin)
  -- `for state in new_transitions.keys() - reachable_states: new_transitions.pop(state)`
  let t := t.filter fun kv => decide (kv.1 ∈ reach)
  pure (reach, t, rfin)

/-- `eliminate_lambda` (the constructor validates). -/
def elim (n : NFA σ α) : Res (NFA σ α) := do
  let (reach, t, rfin) ← core n
  NFA.create { states := reach, syms := n.syms, trans := t, init := n.init, finals := rfin }

end AV.NFAElim
