/-
Model/DFACache.lean — the mutable part of a `DFA` instance (property C20):

  * `_count_cache`, `_word_cache` : lists indexed by length of per-state tables, grown on demand
    by `_populate_count_cache_up_to_len` / `_populate_word_cache_up_to_len`, reset by
    `clear_cache()` (which does **not** touch the `cached_method` tables);
  * the `cached_method` (per-instance `lru_cache`) tables of `_get_digraph`, `isempty`,
    `isfinite`, `cardinality`, `minimum_word_length`, `maximum_word_length`; `lru_cache` stores
    a result only when the call returns normally (a raised exception is not cached), nested
    cached calls populate their own tables;
  * live generator objects: `words_of_length(k)` populates the word cache at its first
    `next()` and then walks the list object it found there; `iter(dfa)` calls `isempty`,
    `minimum_word_length`, `maximum_word_length` at its first `next()` and opens
    `words_of_length(i)` level by level, each time populating the cache *of the moment*;
    `successors(…)` / `predecessors(…)` call the cached `isfinite()` (reverse only) and
    `_get_digraph()` at their first `next()`, build their private configuration and from
    then on run the loop of Model/DFASucc.lean on their own local variables, one yield per
    `next()`;
  * `minify()` on a partial DFA and `to_partial()` read `_get_digraph()` through the memo.

Every public query is a transition `step : Inst → Query → Inst × Ans`.  `stepPure` is the
stateless reference: it keeps nothing but the generators' own positions and answers every
query from the definition alone through the functions of Model/DFAQuery.lean and
Model/DFASucc.lean.  Props/C20.lean proves that both agree on every history.
-/
import AutomataVerif.Model.DFASucc

namespace AV
namespace DFA
variable {σ α : Type} [DecidableEq σ] [DecidableEq α]

/-- The `cached_method` tables (`none` = not yet cached). -/
structure Memo (σ : Type) where
  digraph : Option (Digraph σ) := none
  isempty : Option Bool := none
  isfinite : Option Bool := none
  cardinality : Option Nat := none
  minLen : Option Nat := none
  maxLen : Option (Option Nat) := none
  deriving Repr

/-- A live generator object. -/
inductive Gen (σ α : Type)
  | wordsNew (k : Nat)                      -- `words_of_length(k)` created, not started
  | wordsRun (rest : List (List α))         -- walking `_word_cache[k][initial_state]`
  | iterNew                                 -- `iter(dfa)` created, not started
  | iterRun (i : Nat) (limit : Option Nat) (rest : List (List α))
      -- inside `while`: `rest` is what the current `yield from words_of_length(i-1)` still has
      -- to deliver, `i` is the level the loop opens next
  | succNew (key : α → Int) (input : Option (List α)) (o : SuccOpts)
      -- `successors(input, key=…, …)` created, not started (nothing of its body has run)
  | succRun (o : SuccOpts) (c : SuccCfg σ α) (st : SuccState σ α)
      -- suspended at a `yield` inside the loop: the generator's own local variables
  | raising (e : Exn)
      -- suspended at a `yield` after which the rest of the loop body raises `e`
  | done                                    -- exhausted or ended by an exception

/-- The mutable state of one `DFA` object plus the generators created from it. -/
structure Inst (σ α : Type) where
  counts : List (List (σ × Nat)) := []
  words : List (List (σ × List (List α))) := []
  memo : Memo σ := {}
  gens : List (Gen σ α) := []

/-- A freshly constructed object (`__init__` ends with `clear_cache()`). -/
def Inst.fresh : Inst σ α := {}

/-! ### the two growing caches -/

/-- One execution of the `while` body of `_populate_count_cache_up_to_len`. -/
def nextCountLevel (d : DFA σ α) (cache : List (List (σ × Nat))) : List (σ × Nat) :=
  match cache.getLast? with
  | none => d.countLevel0                 -- `i == 0`
  | some prev => d.countNext prev         -- `prev_level = self._count_cache[i - 1]`

def extendCount (d : DFA σ α) : Nat → List (List (σ × Nat)) → List (List (σ × Nat))
  | 0, cache => cache
  | n + 1, cache => extendCount d n (cache ++ [d.nextCountLevel cache])

/-- `_populate_count_cache_up_to_len(k)`: `while len(cache) <= k: append a level`. -/
def populateCount (d : DFA σ α) (cache : List (List (σ × Nat))) (k : Nat) : List (List (σ × Nat)) :=
  d.extendCount (k + 1 - cache.length) cache

def nextWordLevel (d : DFA σ α) (key : α → Int) (cache : List (List (σ × List (List α)))) :
    List (σ × List (List α)) :=
  match cache.getLast? with
  | none => d.wordLevel0
  | some prev => d.wordNext key prev

def extendWord (d : DFA σ α) (key : α → Int) :
    Nat → List (List (σ × List (List α))) → List (List (σ × List (List α)))
  | 0, cache => cache
  | n + 1, cache => extendWord d key n (cache ++ [d.nextWordLevel key cache])

/-- `_populate_word_cache_up_to_len(k)`. -/
def populateWord (d : DFA σ α) (key : α → Int) (cache : List (List (σ × List (List α)))) (k : Nat) :
    List (List (σ × List (List α))) :=
  d.extendWord key (k + 1 - cache.length) cache

/-- `self._count_cache[r][q]`. -/
def cacheCount (cache : List (List (σ × Nat))) (r : Nat) (q : σ) : Nat :=
  cget (cache[r]?.getD []) q

/-- `self._word_cache[k][q]`. -/
def cacheWords (cache : List (List (σ × List (List α)))) (k : Nat) (q : σ) : List (List α) :=
  wget (cache[k]?.getD []) q

/-- `count_words_of_length(k)` on the instance. -/
def cCountWords (d : DFA σ α) (s : Inst σ α) (k : Nat) : Inst σ α × Nat :=
  let c := d.populateCount s.counts k
  ({ s with counts := c }, cacheCount c k d.init)

/-! ### cached methods -/

/-- `_get_digraph()` (cached). -/
def cDigraph (d : DFA σ α) (s : Inst σ α) : Inst σ α × Digraph σ :=
  match s.memo.digraph with
  | some g => (s, g)
  | none => ({ s with memo := { s.memo with digraph := some d.digraph } }, d.digraph)

/-- `isempty()` (cached). -/
def cIsEmpty (d : DFA σ α) (s : Inst σ α) : Inst σ α × Bool :=
  match s.memo.isempty with
  | some b => (s, b)
  | none => ({ s with memo := { s.memo with isempty := some d.isEmpty } }, d.isEmpty)

/-- `minimum_word_length()` (cached when it returns). -/
def cMinLen (d : DFA σ α) (s : Inst σ α) : Inst σ α × Res Nat :=
  match s.memo.minLen with
  | some m => (s, .ok m)
  | none =>
    match d.minimumWordLength with
    | .ok m => ({ s with memo := { s.memo with minLen := some m } }, .ok m)
    | .error e => (s, .error e)

/-- `maximum_word_length()` (cached when it returns): calls `isempty()` and `_get_digraph()`. -/
def cMaxLen (d : DFA σ α) (s : Inst σ α) : Inst σ α × Res (Option Nat) :=
  match s.memo.maxLen with
  | some m => (s, .ok m)
  | none =>
    let r := d.cIsEmpty s
    match r.2 with
    | true => (r.1, .error (.lib .emptyLanguageException))
    | false =>
      let r2 := d.cDigraph r.1
      let m := d.maxLenCore r2.2
      ({ r2.1 with memo := { r2.1.memo with maxLen := some m } }, .ok m)

/-- `isfinite()` (cached when it returns): calls `maximum_word_length()`. -/
def cIsFinite (d : DFA σ α) (s : Inst σ α) : Inst σ α × Res Bool :=
  match s.memo.isfinite with
  | some b => (s, .ok b)
  | none =>
    let r := d.cMaxLen s
    match isFiniteCore r.2 with
    | .ok b => ({ r.1 with memo := { r.1.memo with isfinite := some b } }, .ok b)
    | .error e => (r.1, .error e)

/-- `sum(self.count_words_of_length(j) for j in js)`. -/
def cSumCounts (d : DFA σ α) : List Nat → Inst σ α → Nat → Inst σ α × Nat
  | [], s, acc => (s, acc)
  | j :: js, s, acc =>
    let r := d.cCountWords s j
    cSumCounts d js r.1 (acc + r.2)

/-- `cardinality()` (cached when it returns). -/
def cCardinality (d : DFA σ α) (s : Inst σ α) : Inst σ α × Res Nat :=
  match s.memo.cardinality with
  | some n => (s, .ok n)
  | none =>
    let r := d.cMinLen s
    match r.2 with
    | .error (.lib .emptyLanguageException) =>
      ({ r.1 with memo := { r.1.memo with cardinality := some 0 } }, .ok 0)
    | .error e => (r.1, .error e)
    | .ok i =>
      let r2 := d.cMaxLen r.1
      match r2.2 with
      | .error e => (r2.1, .error e)
      | .ok none => (r2.1, .error (.lib .infiniteLanguageException))
      | .ok (some limit) =>
        let r3 := d.cSumCounts (List.range' i (limit + 1 - i)) r2.1 0
        ({ r3.1 with memo := { r3.1.memo with cardinality := some r3.2 } }, .ok r3.2)

/-! ### queries and answers -/

/-- How an observed prefix of a generator ended. -/
inductive GenEnd
  | paused                              -- the requested number of words was delivered
  | finished                            -- `StopIteration`
  | outOfFuel
  | raised (e : Exn)
  deriving Repr, DecidableEq

/-- `list(itertools.islice(gen, n))` seen from outside. -/
def takeYields (n : Nat) (r : List (List α) × SuccStatus) : List (List α) × GenEnd :=
  match decide (n ≤ r.1.length) with
  | true => (r.1.take n, .paused)
  | false =>
    (r.1, match r.2 with
          | .finished => .finished
          | .outOfFuel => .outOfFuel
          | .raised e => .raised e)

inductive Query (α : Type)
  | accepts (w : List α)                          -- `accepts_input(w)` / `w in dfa`
  | count (k : Nat)                               -- `count_words_of_length(k)`
  | wordsOpen (k : Nat)                           -- `g = words_of_length(k)`
  | iterOpen                                      -- `g = iter(dfa)`
  | next (h : Nat) (fuel : Nat)                   -- `next(g_h)`
  | cardinality | len | minLen | maxLen | isEmpty | isFinite
  | randomWord (k : Nat) (cs : List Nat)          -- `random_word(k)` with RNG outcomes `cs`
  | succs (key : α → Int) (input : Option (List α)) (o : SuccOpts) (n : Nat) (fuel : Nat)
      -- `list(islice(successors(input, …), n))`  (`n = 0`: generator created, never started)
  | first (key : α → Int) (input : Option (List α)) (o : SuccOpts) (fuel : Nat)
      -- `successor(…)` / `predecessor(…)` (by `o.reverse`)
  | succOpen (key : α → Int) (input : Option (List α)) (o : SuccOpts)
      -- `g = successors(input, …)` / `predecessors(…)`: a generator object, advanced by `next`
  | clearCache                                    -- `clear_cache()`
  | minify (tag : Nat)
      -- `minify(retain_names)`: on a partial DFA the pre-pass reads `_get_digraph()` (cached);
      -- the rest (`_minify`, a classmethod) is a function of the definition and that graph
  | toPartial (tag : Nat)
      -- `to_partial(retain_names, minify)`: always reads `_get_digraph()` (cached)
  | other (tag : Nat)
      -- any method that neither reads nor writes the caches (`==`, `<=`, `issubset`,
      -- `isdisjoint`, `complement`, `union`, …): its answer is a function of the definition alone

/-- The values of the queries whose body is not modelled here (they are other properties'
operations): `other tag` is a function of the definition alone, `viaGraph tag g` of the
definition and of the graph object `g` the method obtained from `_get_digraph()`. -/
structure Ext (σ : Type) where
  other : Nat → Nat
  viaGraph : Nat → Digraph σ → Nat

inductive Ans (α : Type)
  | unit
  | bool (b : Bool)
  | nat (n : Nat)
  | optNat (m : Option Nat)
  | word (w : List α)
  | words (ws : List (List α)) (e : GenEnd)
  | firstWord (r : FirstResult α)
  | handle (h : Nat)
  | stop                                          -- `StopIteration`
  | outOfFuel
  | exn (e : Exn)
  | opaque (tag : Nat)
  deriving Repr, DecidableEq

def ansOfRes {β : Type} (f : β → Ans α) : Res β → Ans α
  | .ok v => f v
  | .error e => .exn e

/-! ### generators on the instance -/

/-- `words_of_length(i)` opened inside `iter(dfa)`: populate the cache of the moment, look
up the list; repeated while the list is empty and the loop condition holds. -/
def cIterAdvance (d : DFA σ α) (key : α → Int) :
    Nat → Inst σ α → Nat → Option Nat → List (List α) → Inst σ α × Gen σ α × Ans α
  | _, s, i, limit, w :: rest => (s, .iterRun i limit rest, .word w)
  | 0, s, i, limit, [] => (s, .iterRun i limit [], .outOfFuel)
  | fuel + 1, s, i, limit, [] =>
    match iterCond limit i with
    | false => (s, .done, .stop)
    | true =>
      let wc := d.populateWord key s.words i
      cIterAdvance d key fuel { s with words := wc } (i + 1) limit (cacheWords wc i d.init)

/-- `next(g)` of a started `successors` generator: run the loop until the next `yield` (at most
`fuel` iterations).  Only the generator's own local variables are read and written. -/
def succAdvance (d : DFA σ α) (o : SuccOpts) (c : SuccCfg σ α) :
    Nat → SuccState σ α → Gen σ α × Ans α
  | 0, st => (.succRun o c st, .outOfFuel)
  | fuel + 1, st =>
    match st.chars.isEmpty && st.cand.isNone with
    | true =>
      -- the code after the loop: at most one more word, then the generator returns
      match succFinal d o st with
      | (w :: _, _) => (.done, .word w)
      | ([], .raised e) => (.done, .exn e)
      | ([], _) => (.done, .stop)
    | false =>
      match succStep d o c st with
      | (some w, .ok st') => (.succRun o c st', .word w)
      | (some w, .error e) => (.raising e, .word w)
      | (none, .ok st') => succAdvance d o c fuel st'
      | (none, .error e) => (.done, .exn e)

/-- The cached calls made when a `successors` generator starts. -/
def cSuccStart (d : DFA σ α) (s : Inst σ α) (reverse : Bool) : Inst σ α × Res Bool × Digraph σ :=
  match reverse with
  | true =>
    let r := d.cIsFinite s
    match r.2 with
    | .ok true => let r2 := d.cDigraph r.1; (r2.1, .ok true, r2.2)
    | other => (r.1, other, d.digraph)        -- raises before `_get_digraph()` is called
  | false => let r2 := d.cDigraph s; (r2.1, .ok true, r2.2)

/-- `next(g)` for a live generator `g`. -/
def cGenNext (d : DFA σ α) (key : α → Int) (s : Inst σ α) (fuel : Nat) :
    Gen σ α → Inst σ α × Gen σ α × Ans α
  | .wordsNew k =>
    let wc := d.populateWord key s.words k
    match cacheWords wc k d.init with
    | [] => ({ s with words := wc }, .done, .stop)
    | w :: rest => ({ s with words := wc }, .wordsRun rest, .word w)
  | .wordsRun [] => (s, .done, .stop)
  | .wordsRun (w :: rest) => (s, .wordsRun rest, .word w)
  | .iterNew =>
    let r := d.cIsEmpty s
    match r.2 with
    | true => (r.1, .done, .stop)
    | false =>
      let r2 := d.cMinLen r.1
      match r2.2 with
      | .error e => (r2.1, .done, .exn e)
      | .ok i =>
        let r3 := d.cMaxLen r2.1
        match r3.2 with
        | .error e => (r3.1, .done, .exn e)
        | .ok limit => d.cIterAdvance key fuel r3.1 i limit []
  | .iterRun i limit rest => d.cIterAdvance key fuel s i limit rest
  | .succNew skey input o =>
    let r := d.cSuccStart s o.reverse
    match d.succSetup r.2.1 r.2.2 skey input o with
    | .error e => (r.1, .done, .exn e)
    | .ok cs => let a := d.succAdvance o cs.1 fuel cs.2; (r.1, a.1, a.2)
  | .succRun o c st => let a := d.succAdvance o c fuel st; (s, a.1, a.2)
  | .raising e => (s, .done, .exn e)
  | .done => (s, .done, .stop)

/-! ### the instance as a state machine -/

/-- One public call on the instance. `key` is the order of the symbols as Python compares
them (code points); `ext` gives the values of the queries whose body is not modelled here. -/
def step (d : DFA σ α) (key : α → Int) (ext : Ext σ) (s : Inst σ α) :
    Query α → Inst σ α × Ans α
  | .accepts w => (s, .bool (d.accepts w))
  | .count k => let r := d.cCountWords s k; (r.1, .nat r.2)
  | .wordsOpen k => ({ s with gens := s.gens ++ [.wordsNew k] }, .handle s.gens.length)
  | .iterOpen => ({ s with gens := s.gens ++ [.iterNew] }, .handle s.gens.length)
  | .next h fuel =>
    match s.gens[h]? with
    | none => (s, .stop)
    | some g =>
      let r := d.cGenNext key s fuel g
      ({ r.1 with gens := r.1.gens.set h r.2.1 }, r.2.2)
  | .cardinality => let r := d.cCardinality s; (r.1, ansOfRes .nat r.2)
  | .len => let r := d.cCardinality s; (r.1, ansOfRes .nat r.2)
  | .minLen => let r := d.cMinLen s; (r.1, ansOfRes .nat r.2)
  | .maxLen => let r := d.cMaxLen s; (r.1, ansOfRes .optNat r.2)
  | .isEmpty => let r := d.cIsEmpty s; (r.1, .bool r.2)
  | .isFinite => let r := d.cIsFinite s; (r.1, ansOfRes .bool r.2)
  | .randomWord k cs =>
    let c := d.populateCount s.counts k
    ({ s with counts := c }, ansOfRes .word (d.randomWordCore (cacheCount c) k cs))
  | .succs skey input o n fuel =>
    match n with
    | 0 => (s, .words [] .paused)
    | n + 1 =>
      let r := d.cSuccStart s o.reverse
      let out := takeYields (n + 1) (d.successorsCore r.2.1 r.2.2 skey input o fuel)
      (r.1, .words out.1 out.2)
  | .first skey input o fuel =>
    let r := d.cSuccStart s o.reverse
    (r.1, .firstWord (firstOf (d.successorsCore r.2.1 r.2.2 skey input o fuel)))
  | .succOpen skey input o =>
    ({ s with gens := s.gens ++ [.succNew skey input o] }, .handle s.gens.length)
  | .clearCache => ({ s with counts := [], words := [] }, .unit)
  | .minify tag =>
    match d.allowPartial with
    | true => let r := d.cDigraph s; (r.1, .opaque (ext.viaGraph tag r.2))
    | false => (s, .opaque (ext.other tag))
  | .toPartial tag => let r := d.cDigraph s; (r.1, .opaque (ext.viaGraph tag r.2))
  | .other tag => (s, .opaque (ext.other tag))

/-- A history of calls: the answers, in order. -/
def runHistory (d : DFA σ α) (key : α → Int) (ext : Ext σ) :
    Inst σ α → List (Query α) → List (Ans α)
  | _, [] => []
  | s, q :: qs =>
    let r := d.step key ext s q
    r.2 :: runHistory d key ext r.1 qs

/-- The state after a history. -/
def afterHistory (d : DFA σ α) (key : α → Int) (ext : Ext σ) :
    Inst σ α → List (Query α) → Inst σ α
  | s, [] => s
  | s, q :: qs => afterHistory d key ext (d.step key ext s q).1 qs

/-! ### the stateless reference -/

def pIterAdvance (d : DFA σ α) (key : α → Int) :
    Nat → Nat → Option Nat → List (List α) → Gen σ α × Ans α
  | _, i, limit, w :: rest => (.iterRun i limit rest, .word w)
  | 0, i, limit, [] => (.iterRun i limit [], .outOfFuel)
  | fuel + 1, i, limit, [] =>
    match iterCond limit i with
    | false => (.done, .stop)
    | true => pIterAdvance d key fuel (i + 1) limit (d.wordsOfLength key i)

/-- `next(g)` computed from the definition alone. -/
def pGenNext (d : DFA σ α) (key : α → Int) (fuel : Nat) : Gen σ α → Gen σ α × Ans α
  | .wordsNew k =>
    match d.wordsOfLength key k with
    | [] => (.done, .stop)
    | w :: rest => (.wordsRun rest, .word w)
  | .wordsRun [] => (.done, .stop)
  | .wordsRun (w :: rest) => (.wordsRun rest, .word w)
  | .iterNew =>
    match d.isEmpty with
    | true => (.done, .stop)
    | false =>
      match d.minimumWordLength with
      | .error e => (.done, .exn e)
      | .ok i =>
        match d.maximumWordLength with
        | .error e => (.done, .exn e)
        | .ok limit => d.pIterAdvance key fuel i limit []
  | .iterRun i limit rest => d.pIterAdvance key fuel i limit rest
  | .succNew skey input o =>
    match d.succSetup (d.finiteGuard o.reverse) d.digraph skey input o with
    | .error e => (.done, .exn e)
    | .ok cs => d.succAdvance o cs.1 fuel cs.2
  | .succRun o c st => d.succAdvance o c fuel st
  | .raising e => (.done, .exn e)
  | .done => (.done, .stop)

/-- The answer of every query, and the generators' positions, computed without any cache. -/
def stepPure (d : DFA σ α) (key : α → Int) (ext : Ext σ) (gens : List (Gen σ α)) :
    Query α → List (Gen σ α) × Ans α
  | .accepts w => (gens, .bool (d.accepts w))
  | .count k => (gens, .nat (d.countWordsOfLength k))
  | .wordsOpen k => (gens ++ [.wordsNew k], .handle gens.length)
  | .iterOpen => (gens ++ [.iterNew], .handle gens.length)
  | .next h fuel =>
    match gens[h]? with
    | none => (gens, .stop)
    | some g => let r := d.pGenNext key fuel g; (gens.set h r.1, r.2)
  | .cardinality => (gens, ansOfRes .nat d.cardinality)
  | .len => (gens, ansOfRes .nat d.len)
  | .minLen => (gens, ansOfRes .nat d.minimumWordLength)
  | .maxLen => (gens, ansOfRes .optNat d.maximumWordLength)
  | .isEmpty => (gens, .bool d.isEmpty)
  | .isFinite => (gens, ansOfRes .bool d.isFinite)
  | .randomWord k cs => (gens, ansOfRes .word (d.randomWord k cs))
  | .succs skey input o n fuel =>
    match n with
    | 0 => (gens, .words [] .paused)
    | n + 1 =>
      let out := takeYields (n + 1) (d.successors skey input o fuel)
      (gens, .words out.1 out.2)
  | .first skey input o fuel => (gens, .firstWord (firstOf (d.successors skey input o fuel)))
  | .succOpen skey input o => (gens ++ [.succNew skey input o], .handle gens.length)
  | .clearCache => (gens, .unit)
  | .minify tag =>
    match d.allowPartial with
    | true => (gens, .opaque (ext.viaGraph tag d.digraph))
    | false => (gens, .opaque (ext.other tag))
  | .toPartial tag => (gens, .opaque (ext.viaGraph tag d.digraph))
  | .other tag => (gens, .opaque (ext.other tag))

def runPure (d : DFA σ α) (key : α → Int) (ext : Ext σ) :
    List (Gen σ α) → List (Query α) → List (Ans α)
  | _, [] => []
  | gens, q :: qs =>
    let r := d.stepPure key ext gens q
    r.2 :: runPure d key ext r.1 qs

end DFA
end AV
