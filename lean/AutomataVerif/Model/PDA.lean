/-
Model/PDA.lean — automata/pda/{stack,configuration,pda,npda,dpda}.py (Lean core only).

Mirrors, function by function:
  PDAStack.top / pop / replace                      ↦ Stack.top / pop / replace
  PDAConfiguration(state, remaining_input, stack)   ↦ Config
  PDA._replace_stack_top, _has_lambda_transition,
      _has_accepted (literals from Generated/Pda)   ↦ replaceStackTop, hasLambdaTransition, hasAccepted
  PDA.validate and the _validate_* helpers          ↦ validateCommon, NPDA.validate, DPDA.validate
  NPDA._get_transitions, _get_next_configurations,
      read_input_stepwise                           ↦ NPDA.getTransitions, nextConfigs, expandLevel, run, readStepwise
  DPDA._get_transition, _get_next_configuration,
      _check_for_input_rejection, read_input_stepwise ↦ DPDA.getTransition, nextConfig, loop, readStepwise
  DPDA._validate_transition_isolated_lambda_transitions
      / _lambda_transition_sibling                  ↦ DPDA.validateIsolated / siblingCheck
  Automaton.read_input / accepts_input              ↦ readInput / acceptsInput

Conventions.  The stack is the Python tuple `PDAStack.stack`: bottom first, the top is the
LAST element.  The input symbol `""` (λ) is `none : Option α`.  `PDAStack.top()` of an empty
stack is `""`; the model returns `none` and no table entry is keyed by it: the type `γ` of
stack symbols has no value standing for the empty string.  Since `fix:` cb4efab `PDA.validate`
begins with `if "" in self.stack_symbols: raise InvalidSymbolError`, and a key `""` that is not
declared fails `_validate_transition_invalid_stack_symbols`, so no valid table is keyed by `""`;
on the definitions the model can express the new check never fires, which is why `validate`
below has no counterpart of it (the harness checks separately that definitions declaring `""`
are refused).  A pushed value may be a `str` or a tuple in Python; both are the list of their
symbols here (`""` and `()` are `[]`).
Both readers can loop forever (λ-cycles): they take `fuel` (number of loop iterations) and
report `Outcome.outOfFuel` when it runs out.
-/
import AutomataVerif.Model.Basic
import AutomataVerif.Generated.Pda

namespace AV.PDA

/-- `PDAConfiguration`: current state, remaining input, stack (bottom first). -/
structure Config (σ α γ : Type) where
  state : σ
  input : List α
  stack : List γ
  deriving DecidableEq, Repr

/-! ### PDAStack -/
namespace Stack
variable {γ : Type}

/-- `PDAStack.top`: `stack[-1]`, or `""` (here `none`) when the stack is empty. -/
def top (s : List γ) : Option γ := s.getLast?

/-- `PDAStack.pop`: `stack[:-1]` (an empty stack stays empty). -/
def pop (s : List γ) : List γ := s.dropLast

/-- `PDAStack.replace`: `stack[:-1] + tuple(reversed(symbols))`. -/
def replace (s : List γ) (symbols : List γ) : List γ := s.dropLast ++ symbols.reverse

end Stack

/-- How a reader generator ends. -/
inductive Outcome
  | returned            -- the generator returns normally (`accepts_input` is True)
  | raised (e : Exn)    -- it raises (`RejectionException`: `accepts_input` is False)
  | outOfFuel           -- the model's loop budget ran out; nothing is claimed
  deriving DecidableEq, Repr, Inhabited

/-- The definition of a PDA.  `τ` is the type of a table entry: `σ × List γ` for a DPDA
(one `(state, push)`), `List (σ × List γ)` for an NPDA (a set of them).
`transitions[q][a][X]` is a dict of dicts of dicts: association lists, first match wins. -/
structure Table (σ α γ τ : Type) where
  states : List σ
  inputSyms : List α
  stackSyms : List γ
  trans : List (σ × List (Option α × List (γ × τ)))
  init : σ
  initStack : γ
  finals : List σ
  mode : String
  deriving Repr

abbrev DPDA (σ α γ : Type) := Table σ α γ (σ × List γ)
abbrev NPDA (σ α γ : Type) := Table σ α γ (List (σ × List γ))

/-- A transition as the readers build it: `(input_symbol, new_state, new_stack_top)`. -/
abbrev Trans (σ α γ : Type) := Option α × σ × List γ

section Common
variable {σ α γ τ : Type} [DecidableEq σ] [DecidableEq α] [DecidableEq γ]

namespace Table

/-- `transitions[q][a][X]` guarded by
`q in transitions and a in transitions[q] and X in transitions[q][a]`. -/
def entry? (M : Table σ α γ τ) (q : σ) (a : Option α) (X : γ) : Option τ :=
  match alookup q M.trans with
  | none => none
  | some row =>
    match alookup a row with
    | none => none
    | some sp => alookup X sp

/-- `_has_lambda_transition(state, stack_symbol)`; `stack_symbol` is `stack.top()`. -/
def hasLambdaTransition (M : Table σ α γ τ) (q : σ) (top : Option γ) : Bool :=
  match top with
  | none => false
  | some X => (M.entry? q none X).isSome

/-- One test of `_has_accepted` (see `Gen.Pda.AccTest`). -/
def accTest (M : Table σ α γ τ) (c : Config σ α γ) : Gen.Pda.AccTest → Bool
  | .stackEmpty => c.stack.isEmpty
  | .stateFinal => decide (c.state ∈ M.finals)
  | .other => false

/-- `_has_accepted`: no input left and one of the tests enabled by the acceptance mode
holds; the mode literals and the order of the tests come from the regenerated table. -/
def hasAccepted (M : Table σ α γ τ) (c : Config σ α γ) : Bool :=
  (!Gen.Pda.hasAcceptedChecksInput || c.input.isEmpty) &&
  Gen.Pda.hasAcceptedRules.any fun r => decide (M.mode ∈ r.1) && M.accTest c r.2

/-- The start configuration `PDAConfiguration(initial_state, input_str, PDAStack([initial_stack_symbol]))`. -/
def start (M : Table σ α γ τ) (w : List α) : Config σ α γ := ⟨M.init, w, [M.initStack]⟩

/-! #### validation helpers of `PDA` -/

/-- `_validate_transition_invalid_input_symbols`. -/
def validateInputSymbol (M : Table σ α γ τ) (a : Option α) : Res Unit :=
  match a with
  | none => .ok ()
  | some a => guardE (decide (a ∈ M.inputSyms)) (.lib .invalidSymbolError)

/-- `_validate_transition_invalid_stack_symbols`. -/
def validateStackSymbol (M : Table σ α γ τ) (X : γ) : Res Unit :=
  guardE (decide (X ∈ M.stackSyms)) (.lib .invalidSymbolError)

/-- The tail of `PDA.validate`: `_validate_initial_state`, `_validate_initial_stack_symbol`,
`_validate_final_states`, `_validate_acceptance`, in this order. -/
def validateCommon (M : Table σ α γ τ) : Res Unit :=
  (guardE (decide (M.init ∈ M.states)) (.lib .invalidStateError)).andThen <|
  (guardE (decide (M.initStack ∈ M.stackSyms)) (.lib .invalidSymbolError)).andThen <|
  (guardE (M.finals.all fun q => decide (q ∈ M.states)) (.lib .invalidStateError)).andThen <|
  guardE (decide (M.mode ∈ Gen.Pda.validModes)) (.lib .invalidAcceptanceModeError)

end Table

/-- `_replace_stack_top`: `stack.pop()` when the new top is `""`, else `stack.replace(new_top)`. -/
def replaceStackTop (stack : List γ) (newTop : List γ) : List γ :=
  match newTop with
  | [] => Stack.pop stack
  | _ :: _ => Stack.replace stack newTop

/-- The body shared by `_get_next_configuration(s)`: the configuration after taking
transition `t` from `c` (`if input_symbol: remaining_input = remaining_input[1:]`). -/
def applyTrans (c : Config σ α γ) (t : Trans σ α γ) : Config σ α γ :=
  ⟨t.2.1, (match t.1 with | some _ => c.input.tail | none => c.input), replaceStackTop c.stack t.2.2⟩

end Common

/-! ### NPDA -/
namespace NPDA
variable {σ α γ : Type} [DecidableEq σ] [DecidableEq α] [DecidableEq γ]

/-- `_get_transitions(state, input_symbol, stack_symbol)`. -/
def getTransitions (M : NPDA σ α γ) (q : σ) (a : Option α) (top : Option γ) : List (Trans σ α γ) :=
  match top with
  | none => []
  | some X =>
    match M.entry? q a X with
    | none => []
    | some ts => ts.map fun e => (a, e.1, e.2)

/-- `_get_next_configurations(old_config)` (a set: duplicates removed). -/
def nextConfigs (M : NPDA σ α γ) (c : Config σ α γ) : List (Config σ α γ) :=
  let symT := match c.input with
    | [] => []
    | a :: _ => M.getTransitions c.state (some a) (Stack.top c.stack)
  let ts := symT ++ M.getTransitions c.state none (Stack.top c.stack)
  dedup (ts.map (applyTrans c))

/-- The body of the `for config in current_configurations` loop for a configuration that
is not accepting: `new_configurations.update(self._get_next_configurations(config))` when
there is input left or (`elif`) a λ-transition for the stack top. -/
def addSuccessors (M : NPDA σ α γ) (acc : List (Config σ α γ)) (c : Config σ α γ) : List (Config σ α γ) :=
  match c.input with
  | _ :: _ => sunion acc (M.nextConfigs c)
  | [] =>
    match M.hasLambdaTransition c.state (Stack.top c.stack) with
    | true => sunion acc (M.nextConfigs c)
    | false => acc

/-- The `for config in current_configurations` loop of `read_input_stepwise`:
`none` when an accepting configuration is met (the generator returns), otherwise the
new configuration set. -/
def expandLevel (M : NPDA σ α γ) : List (Config σ α γ) → List (Config σ α γ) → Option (List (Config σ α γ))
  | [], acc => some acc
  | c :: rest, acc =>
    match M.hasAccepted c with
    | true => none
    | false => expandLevel M rest (M.addSuccessors acc c)

/-- The `while current_configurations:` loop; returns the sets yielded inside it. -/
def run (M : NPDA σ α γ) : Nat → List (Config σ α γ) → List (List (Config σ α γ)) × Outcome
  | 0, _ => ([], .outOfFuel)
  | fuel + 1, cur =>
    match cur with
    | [] => ([], .raised (.lib .rejectionException))
    | _ :: _ =>
      match M.expandLevel cur [] with
      | none => ([], .returned)
      | some nxt =>
        let r := run M fuel nxt
        (nxt :: r.1, r.2)

/-- `read_input_stepwise(input_str)`: the yielded configuration sets and how the generator ends. -/
def readStepwise (M : NPDA σ α γ) (fuel : Nat) (w : List α) : List (List (Config σ α γ)) × Outcome :=
  let c0 := [M.start w]
  let r := M.run fuel c0
  (c0 :: r.1, r.2)

/-- Driver support (not part of the mirrored code): `run` taken one loop iteration at a time
(`run 1`), giving up — as if the fuel had run out — after a level with more than `cap`
configurations.  The result is `run fuel' cur` for some `fuel' ≤ fuel`
(`NPDA.guardedRun_eq_run`); the harness applies the same size budget to the real reader, so
on agreeing runs `fuel' = fuel`, and a diverging implementation cannot make the driver
enumerate an exponentially large level. -/
def guardedRun (M : NPDA σ α γ) (cap : Nat) : Nat → List (Config σ α γ) → List (List (Config σ α γ)) × Outcome
  | 0, _ => ([], .outOfFuel)
  | fuel + 1, cur =>
    match M.run 1 cur with
    | ([nxt], .outOfFuel) =>
      match decide (cap < nxt.length) with
      | true => ([nxt], .outOfFuel)
      | false =>
        let r := guardedRun M cap fuel nxt
        (nxt :: r.1, r.2)
    | r => r

/-- `readStepwise` through `guardedRun`. -/
def guardedReadStepwise (M : NPDA σ α γ) (cap fuel : Nat) (w : List α) : List (List (Config σ α γ)) × Outcome :=
  let c0 := [M.start w]
  let r := M.guardedRun cap fuel c0
  (c0 :: r.1, r.2)

/-! #### validation -/

/-- `NPDA._validate_transition_invalid_symbols(start_state, paths)`. -/
def validateRow (M : NPDA σ α γ) (paths : List (Option α × List (γ × List (σ × List γ)))) : Res Unit :=
  firstErr paths fun e =>
    (M.validateInputSymbol e.1).andThen (firstErr (akeys e.2) fun X => M.validateStackSymbol X)

/-- `PDA.validate` for an NPDA. -/
def validate (M : NPDA σ α γ) : Res Unit :=
  (firstErr M.trans fun kv => M.validateRow kv.2).andThen M.validateCommon

end NPDA

/-! ### DPDA -/
namespace DPDA
variable {σ α γ : Type} [DecidableEq σ] [DecidableEq α] [DecidableEq γ]

/-- `_get_transition(state, input_symbol, stack_symbol)`: `(input_symbol,) + entry` or `None`. -/
def getTransition (M : DPDA σ α γ) (q : σ) (a : Option α) (top : Option γ) : Option (Trans σ α γ) :=
  match top with
  | none => none
  | some X =>
    match M.entry? q a X with
    | none => none
    | some e => some (a, e.1, e.2)

/-- `_get_next_configuration(old_config)`.
The code collects the symbol transition and the λ-transition in a set, removes `None`,
raises `RejectionException` when nothing is left (formatting the message evaluates
`remaining_input[0]`: `IndexError` when the input is empty) and otherwise takes
`transitions.pop()`.  When both transitions exist the popped one depends on the set's
iteration order: `pick c = true` takes the symbol transition, `false` the λ-transition. -/
def nextConfig (M : DPDA σ α γ) (pick : Config σ α γ → Bool) (c : Config σ α γ) : Res (Config σ α γ) :=
  let symT := match c.input with
    | [] => none
    | a :: _ => M.getTransition c.state (some a) (Stack.top c.stack)
  let epsT := M.getTransition c.state none (Stack.top c.stack)
  match symT, epsT with
  | none, none =>
    match c.input with
    | [] => .error (.py .indexError)
    | _ :: _ => .error (.lib .rejectionException)
  | some t, none => .ok (applyTrans c t)
  | none, some t => .ok (applyTrans c t)
  | some t₁, some t₂ =>
    match pick c with
    | true => .ok (applyTrans c t₁)
    | false => .ok (applyTrans c t₂)

/-- `_check_for_input_rejection` followed by falling off the end of the generator. -/
def checkForInputRejection (M : DPDA σ α γ) (c : Config σ α γ) : Outcome :=
  match M.hasAccepted c with
  | true => .returned
  | false => .raised (.lib .rejectionException)

/-- The `while` loop of `read_input_stepwise` from a configuration that has already been
yielded and found not accepting; returns the configurations yielded from here on. -/
def loop (M : DPDA σ α γ) (pick : Config σ α γ → Bool) :
    Nat → Config σ α γ → List (Config σ α γ) × Outcome
  | 0, _ => ([], .outOfFuel)
  | fuel + 1, cur =>
    match (!cur.input.isEmpty) || M.hasLambdaTransition cur.state (Stack.top cur.stack) with
    | false => ([], M.checkForInputRejection cur)
    | true =>
      match M.nextConfig pick cur with
      | .error e => ([], .raised e)
      | .ok nxt =>
        match M.hasAccepted nxt with
        | true => ([nxt], .returned)
        | false =>
          let r := loop M pick fuel nxt
          (nxt :: r.1, r.2)

/-- `read_input_stepwise(input_str)` (the start configuration is tested before the loop:
`fix:` commit 5e96321). -/
def readStepwise (M : DPDA σ α γ) (pick : Config σ α γ → Bool) (fuel : Nat) (w : List α) :
    List (Config σ α γ) × Outcome :=
  let c0 := M.start w
  match M.hasAccepted c0 with
  | true => ([c0], .returned)
  | false =>
    let r := M.loop pick fuel c0
    (c0 :: r.1, r.2)

/-! #### validation -/

/-- `_validate_transition_lambda_transition_sibling(start_state, sib_path)`:
`self.transitions[start_state][""]` is looked up for every stack symbol of the sibling. -/
def siblingCheck (M : DPDA σ α γ) (q : σ) (sibPath : List (γ × (σ × List γ))) : Res Unit :=
  firstErr (akeys sibPath) fun Y =>
    match alookup q M.trans with
    | none => .error (.py .keyError)
    | some row =>
      match alookup none row with
      | none => .error (.py .keyError)
      | some epsRow => guardE (!ahas Y epsRow) (.lib .nondeterminismError)

/-- The body of `for sib_input_symbol, sib_path in sib_transitions.items()`:
`if sib_input_symbol != "": self._validate_transition_lambda_transition_sibling(...)`. -/
def validateSibling (M : DPDA σ α γ) (q : σ) (sib : Option α × List (γ × (σ × List γ))) : Res Unit :=
  match sib.1 with
  | none => .ok ()
  | some _ => M.siblingCheck q sib.2

/-- `_validate_transition_isolated_lambda_transitions(start_state, input_symbol, stack_symbol)`
(the stack symbol is not used by the code). -/
def validateIsolated (M : DPDA σ α γ) (q : σ) (a : Option α) : Res Unit :=
  match a with
  | some _ => .ok ()
  | none =>
    match alookup q M.trans with
    | none => .error (.py .keyError)
    | some sibs => firstErr sibs fun sib => M.validateSibling q sib

/-- `DPDA._validate_transition_invalid_symbols(start_state, paths)`. -/
def validateRow (M : DPDA σ α γ) (q : σ) (paths : List (Option α × List (γ × (σ × List γ)))) : Res Unit :=
  firstErr paths fun e =>
    (M.validateInputSymbol e.1).andThen <|
    firstErr (akeys e.2) fun X =>
      (M.validateIsolated q e.1).andThen (M.validateStackSymbol X)

/-- `PDA.validate` for a DPDA. -/
def validate (M : DPDA σ α γ) : Res Unit :=
  (firstErr M.trans fun kv => M.validateRow kv.1 kv.2).andThen M.validateCommon

/-- The NPDA "with the same transition table": every entry becomes a singleton set. -/
def lift (M : DPDA σ α γ) : NPDA σ α γ :=
  { states := M.states, inputSyms := M.inputSyms, stackSyms := M.stackSyms,
    trans := M.trans.map fun kv => (kv.1, kv.2.map fun e => (e.1, e.2.map fun x => (x.1, [x.2]))),
    init := M.init, initStack := M.initStack, finals := M.finals, mode := M.mode }

end DPDA

/-! ### Automaton.read_input / accepts_input -/

/-- `read_input`: the last yielded value, or the exception (`none`: out of fuel). -/
def readInput {β : Type} (r : List β × Outcome) : Option (Res β) :=
  match r.2 with
  | .outOfFuel => none
  | .raised e => some (.error e)
  | .returned =>
    match r.1.getLast? with
    | some c => some (.ok c)
    | none => some (.error (.py .unboundLocal))

/-- `accepts_input`: `RejectionException` ↦ False, other exceptions propagate. -/
def acceptsInput {β : Type} (r : List β × Outcome) : Option (Res Bool) :=
  match readInput r with
  | none => none
  | some (.ok _) => some (.ok true)
  | some (.error (.lib .rejectionException)) => some (.ok false)
  | some (.error e) => some (.error e)

end AV.PDA
