/-
Model/RxAst.lean — abstract syntax of the documented regular-expression language and the
two functions that connect it to the model of the code:

* `Rx.toPostfix` — the postfix token stream of a tree (what `tokens_to_postfix` must output),
* `Rx.build`     — the builder calls `parse_postfix_tokens` performs on that stream, written as
                   a recursion over the tree (left operand first, then right operand, then the
                   operator — the counter is threaded in that order).

The code itself never constructs a tree; these definitions belong to the specification side and
are tied to the model by theorems (`evalPostfix_toPostfix`, `C10_parse`).  Lean core only.
-/
import AutomataVerif.Model.RxCompile

namespace AV.Rx

inductive Rx (α : Type)
  | lit (a : α)                     -- a symbol
  | wildcard                        -- `.`
  | eps                             -- `()`
  | cat (e f : Rx α)                -- juxtaposition
  | union (e f : Rx α)              -- `|`
  | inter (e f : Rx α)              -- `&`
  | shuffle (e f : Rx α)            -- `^`
  | star (e : Rx α)                 -- `*`
  | plus (e : Rx α)                 -- `+`
  | opt (e : Rx α)                  -- `?`
  | rep (e : Rx α) (lo : Nat) (hi : Option Nat)   -- `{lo,hi}`, `{lo,}`
  deriving DecidableEq, Repr

variable {α : Type} [DecidableEq α]

/-- Postfix linearisation. -/
def Rx.toPostfix : Rx α → List (Tok α)
  | .lit a => [.str [a]]
  | .wildcard => [.wildcard]
  | .eps => [.str []]
  | .cat e f => e.toPostfix ++ f.toPostfix ++ [.concat]
  | .union e f => e.toPostfix ++ f.toPostfix ++ [.union]
  | .inter e f => e.toPostfix ++ f.toPostfix ++ [.inter]
  | .shuffle e f => e.toPostfix ++ f.toPostfix ++ [.shuffle]
  | .star e => e.toPostfix ++ [.star]
  | .plus e => e.toPostfix ++ [.plus]
  | .opt e => e.toPostfix ++ [.opt]
  | .rep e lo hi => e.toPostfix ++ [.quant lo hi]

/-- The builder run for a tree, starting with counter value `c`. -/
def Rx.build (syms : List α) : Rx α → Nat → Res (Builder α × Nat)
  | .lit a, c => .ok (Builder.fromStringLiteral [a] c)
  | .wildcard, c => .ok (Builder.wildcard syms c)
  | .eps, c => .ok (Builder.fromStringLiteral [] c)
  | .cat e f, c =>
      match e.build syms c with
      | .error x => .error x
      | .ok (b1, c1) =>
        match f.build syms c1 with
        | .error x => .error x
        | .ok (b2, c2) =>
          match b1.concatenate b2 with
          | .error x => .error x
          | .ok b => .ok (b, c2)
  | .union e f, c =>
      match e.build syms c with
      | .error x => .error x
      | .ok (b1, c1) =>
        match f.build syms c1 with
        | .error x => .error x
        | .ok (b2, c2) => .ok (b1.union b2 c2)
  | .inter e f, c =>
      match e.build syms c with
      | .error x => .error x
      | .ok (b1, c1) =>
        match f.build syms c1 with
        | .error x => .error x
        | .ok (b2, c2) => .ok (b1.intersection b2 c2)
  | .shuffle e f, c =>
      match e.build syms c with
      | .error x => .error x
      | .ok (b1, c1) =>
        match f.build syms c1 with
        | .error x => .error x
        | .ok (b2, c2) => .ok (b1.shuffle b2 c2)
  | .star e, c =>
      match e.build syms c with
      | .error x => .error x
      | .ok (b, c1) => b.repeat_ 0 none c1
  | .plus e, c =>
      match e.build syms c with
      | .error x => .error x
      | .ok (b, c1) => b.repeat_ 1 none c1
  | .opt e, c =>
      match e.build syms c with
      | .error x => .error x
      | .ok (b, c1) => b.repeat_ 0 (some 1) c1
  | .rep e lo hi, c =>
      match e.build syms c with
      | .error x => .error x
      | .ok (b, c1) => b.repeat_ lo hi c1

end AV.Rx
