/-
Model/DFAQuery.lean — automata/fa/dfa.py: counting, enumeration, lengths, random sampling
(property C13), stateless part.  Mirrors (as they behave on a freshly constructed object):

  _get_digraph, get_reachable_nodes (automata/base/utils.py), isempty (_find_state/_bfs_states),
  _populate_count_cache_up_to_len / count_words_of_length   (`countLevel`, one DP level per call
      of the `while` body: level 0 from the final states, level i from level i-1 over
      `transitions[state].values()`),
  _populate_word_cache_up_to_len / words_of_length          (`wordLevel`, sorted symbols per state),
  minimum_word_length (queue BFS with a distance dict), maximum_word_length (isempty check,
      accessible ∩ coaccessible subgraph, `nx.dag_longest_path_length` by its contract),
  isfinite, cardinality, __len__, __iter__, random_word (the RNG's `randint` results are an
      explicit argument).

The caches themselves (growth on demand, `clear_cache`, `cached_method` memo tables) are in
Model/DFACache.lean (C20).

Conventions: symbols are compared through an explicit key `key : α → Int` (Python compares
single-character strings by code point; the driver sends symbols as their rank in that order,
so there `key = id`).  Words are `List α`.  `defaultdict` levels are association lists read with
a default (`cget`, `wget`).  `self.transitions[state]` is `d.row state` (a validated DFA has a
row for every state, Proofs/Read.lean `row?_some_of_mem`).
-/
import AutomataVerif.Model.DFA

namespace AV

/-! ### `sorted` -/

/-- Insert `x` into a sorted list *before* the first element that is not smaller (so that
`sortBy` below is stable, like Python's `sorted`). -/
def insertBy {β : Type} (lt : β → β → Bool) (x : β) : List β → List β
  | [] => [x]
  | y :: t => if lt y x then y :: insertBy lt x t else x :: y :: t

/-- Stable insertion sort: `sorted(l, key=…)` with `lt a b = key a < key b`,
`sorted(l, key=…, reverse=True)` with `lt a b = key a > key b`. -/
def sortBy {β : Type} (lt : β → β → Bool) (l : List β) : List β := l.foldr (insertBy lt) []

/-! ### the `networkx.DiGraph` of `_get_digraph` and `get_reachable_nodes` -/

/-- A `networkx.DiGraph` without attributes. -/
structure Digraph (σ : Type) where
  nodes : List σ
  edges : List (σ × σ)
  deriving Repr

namespace Digraph
variable {σ : Type} [DecidableEq σ]

/-- `graph.neighbors(q)`. -/
def succ (g : Digraph σ) (q : σ) : List σ :=
  (g.edges.filter fun e => decide (e.1 = q)).map Prod.snd

/-- `graph.predecessors(q)`. -/
def pred (g : Digraph σ) (q : σ) : List σ :=
  (g.edges.filter fun e => decide (e.2 = q)).map Prod.fst

/-- `get_reachable_nodes(graph, sources, reversed)` (automata/base/utils.py). -/
def reachable (g : Digraph σ) (sources : List σ) (reversed : Bool) : List σ :=
  match reversed with
  | true => bfs g.pred (sources ++ g.nodes) sources
  | false => bfs g.succ (sources ++ g.nodes) sources

end Digraph

namespace DFA
variable {σ α : Type} [DecidableEq σ] [DecidableEq α]

/-! ### `_get_digraph`, `get_reachable_nodes`, `isempty` -/

/-- Edges of `_get_digraph()`: `(start, end)` for every row and every entry of the row. -/
def gedges (d : DFA σ α) : List (σ × σ) :=
  d.trans.flatMap fun kv => kv.2.map fun e => (kv.1, e.2)

/-- Nodes of `_get_digraph()`: the states plus the end points of the edges. -/
def gnodes (d : DFA σ α) : List σ :=
  dedup (d.states ++ d.gedges.flatMap fun e => [e.1, e.2])

/-- `_get_digraph()` (transition symbols ignored). -/
def digraph (d : DFA σ α) : Digraph σ := { nodes := d.gnodes, edges := d.gedges }

/-- `transitions[state].values()`. -/
def rowSucc (d : DFA σ α) (q : σ) : List σ := avals (d.row q)

/-- `isempty()`: no final state among the BFS states from the initial state. -/
def isEmpty (d : DFA σ α) : Bool :=
  !((bfs d.rowSucc (d.init :: d.gnodes) [d.init]).any fun q => decide (q ∈ d.finals))

/-! ### count and word tables -/

/-- `level[q]` on a `defaultdict(int)`. -/
def cget (lvl : List (σ × Nat)) (q : σ) : Nat := (alookup q lvl).getD 0

/-- `level[q]` on a `defaultdict(list)`. -/
def wget (lvl : List (σ × List (List α))) (q : σ) : List (List α) := (alookup q lvl).getD []

/-- Level 0 of the count cache: `{state: 1 for state in final_states}`. -/
def countLevel0 (d : DFA σ α) : List (σ × Nat) := d.finals.map fun q => (q, 1)

/-- Level `i > 0` of the count cache from level `i-1`:
`{state: sum(prev[t] for t in transitions[state].values()) for state in states}`. -/
def countNext (d : DFA σ α) (prev : List (σ × Nat)) : List (σ × Nat) :=
  d.states.map fun q => (q, ((avals (d.row q)).map (cget prev)).sum)

/-- The count table of a fresh object after `_populate_count_cache_up_to_len(k)`, level `k`. -/
def countLevel (d : DFA σ α) : Nat → List (σ × Nat)
  | 0 => d.countLevel0
  | k + 1 => d.countNext (countLevel d k)

/-- `count_words_of_length(k)` on a fresh object. -/
def countWordsOfLength (d : DFA σ α) (k : Nat) : Nat := cget (d.countLevel k) d.init

/-- `sorted(lookup.keys())`. -/
def sortedKeys (key : α → Int) (row : List (α × σ)) : List α :=
  sortBy (fun a b => decide (key a < key b)) (akeys row)

/-- Level 0 of the word cache: `{state: [""] for state in final_states}`. -/
def wordLevel0 (d : DFA σ α) : List (σ × List (List α)) := d.finals.map fun q => (q, [[]])

/-- Level `i > 0` of the word cache from level `i-1`:
`{state: [symbol + word for symbol in sorted_symbols[state]
                         for word in prev[transitions[state][symbol]]] for state in states}`. -/
def wordNext (d : DFA σ α) (key : α → Int) (prev : List (σ × List (List α))) :
    List (σ × List (List α)) :=
  d.states.map fun q =>
    (q, (sortedKeys key (d.row q)).flatMap fun a =>
      match alookup a (d.row q) with
      | some t => (wget prev t).map (a :: ·)
      | none => [])  -- unreachable: `a` is a key of this row

def wordLevel (d : DFA σ α) (key : α → Int) : Nat → List (σ × List (List α))
  | 0 => d.wordLevel0
  | k + 1 => d.wordNext key (wordLevel d key k)

/-- `list(words_of_length(k))` on a fresh object. -/
def wordsOfLength (d : DFA σ α) (key : α → Int) (k : Nat) : List (List α) :=
  wget (d.wordLevel key k) d.init

/-! ### `minimum_word_length` -/

/-- `distances[q]` (a plain dict; every state in the queue has an entry). -/
def dget (dist : List (σ × Nat)) (q : σ) : Nat := (alookup q dist).getD 0

/-- `for next_state in transitions[state].values(): if next_state not in distances: …`. -/
def minLenExpand (dq : Nat) : List σ → List σ × List (σ × Nat) → List σ × List (σ × Nat)
  | [], acc => acc
  | t :: ts, (queue, dist) =>
      match ahas t dist with
      | true => minLenExpand dq ts (queue, dist)
      | false => minLenExpand dq ts (queue ++ [t], dist ++ [(t, dq + 1)])

/-- The `while queue:` loop.  Every state is enqueued at most once, so
`|nodes| + 1` pops suffice (fuel); at fuel 0 the loop is cut as if the queue were empty. -/
def minLenLoop (d : DFA σ α) : Nat → List σ → List (σ × Nat) → Res Nat
  | 0, _, _ => .error (.lib .emptyLanguageException)
  | _ + 1, [], _ => .error (.lib .emptyLanguageException)
  | fuel + 1, q :: queue, dist =>
      match decide (q ∈ d.finals) with
      | true => .ok (dget dist q)
      | false =>
          let r := minLenExpand (dget dist q) (d.rowSucc q) (queue, dist)
          minLenLoop d fuel r.1 r.2

/-- `minimum_word_length()`. -/
def minimumWordLength (d : DFA σ α) : Res Nat :=
  d.minLenLoop (d.gnodes.length + 2) [d.init] [(d.init, 0)]

/-! ### `maximum_word_length`, `isfinite` -/

/-- accessible ∩ coaccessible nodes of the graph `g`. -/
def important (d : DFA σ α) (g : Digraph σ) : List σ :=
  let co := g.reachable d.finals true
  (g.reachable [d.init] false).filter fun q => decide (q ∈ co)

/-- Vertices of `V` from which a walk with exactly `i` edges starts that stays inside `V`
(the subgraph induced by `V`). -/
def walkLevels (succ : σ → List σ) (V : List σ) : Nat → List σ
  | 0 => V
  | i + 1 =>
      let prev := walkLevels succ V i
      V.filter fun v => (succ v).any fun u => decide (u ∈ prev)

/-- Largest `i ≤ n` such that a walk with `i` edges exists (0 if none). -/
def maxWalk (succ : σ → List σ) (V : List σ) : Nat → Nat
  | 0 => 0
  | n + 1 =>
      match (walkLevels succ V (n + 1)).isEmpty with
      | true => maxWalk succ V n
      | false => n + 1

/-- `nx.dag_longest_path_length(graph.subgraph(V))` by its contract: the number of edges of a
longest path when the subgraph is acyclic; `none` stands for `NetworkXUnfeasible` (the subgraph
has a cycle, i.e. a walk with `|V|` edges). -/
def dagLongestPathLength (succ : σ → List σ) (V : List σ) : Option Nat :=
  match (walkLevels succ V V.length).isEmpty with
  | false => none
  | true => some (maxWalk succ V V.length)

/-- The part of `maximum_word_length()` after the emptiness test, on the graph `g`
returned by `_get_digraph()`: `none` = the language is infinite. -/
def maxLenCore (d : DFA σ α) (g : Digraph σ) : Option Nat :=
  dagLongestPathLength g.succ (d.important g)

/-- `maximum_word_length()`: `.ok none` = the language is infinite. -/
def maximumWordLength (d : DFA σ α) : Res (Option Nat) :=
  match d.isEmpty with
  | true => .error (.lib .emptyLanguageException)
  | false => .ok (d.maxLenCore d.digraph)

/-- `isfinite()` given the outcome of its call of `maximum_word_length()`. -/
def isFiniteCore (m : Res (Option Nat)) : Res Bool :=
  match m with
  | .ok m => .ok m.isSome
  | .error (.lib .emptyLanguageException) => .ok true
  | .error e => .error e

/-- `isfinite()`. -/
def isFinite (d : DFA σ α) : Res Bool := isFiniteCore d.maximumWordLength

/-! ### `cardinality`, `__len__` -/

/-- `cardinality()`. -/
def cardinality (d : DFA σ α) : Res Nat :=
  match d.minimumWordLength with
  | .error (.lib .emptyLanguageException) => .ok 0
  | .error e => .error e
  | .ok i =>
      match d.maximumWordLength with
      | .error e => .error e
      | .ok none => .error (.lib .infiniteLanguageException)
      | .ok (some limit) =>
          .ok (((List.range' i (limit + 1 - i)).map d.countWordsOfLength).sum)

/-- The method `DFA.__len__` (`return self.cardinality()`).  The builtin `len(dfa)` converts this
result to a `Py_ssize_t` and raises `OverflowError` from 2^63 on: `DFA.lenBuiltin`,
Model/DFALen.lean. -/
def len (d : DFA σ α) : Res Nat := d.cardinality

/-! ### `__iter__` -/

/-- `while limit is None or i <= limit`. -/
def iterCond (limit : Option Nat) (i : Nat) : Bool :=
  match limit with
  | none => true
  | some l => decide (i ≤ l)

/-- At most `n` executions of the loop body `yield from words_of_length(i); i += 1`
starting at level `i`: the yielded words and whether the loop has been left. -/
def iterLoop (d : DFA σ α) (key : α → Int) (limit : Option Nat) : Nat → Nat → List (List α) × Bool
  | 0, i => ([], !iterCond limit i)
  | n + 1, i =>
      match iterCond limit i with
      | false => ([], true)
      | true =>
          let r := iterLoop d key limit n (i + 1)
          (d.wordsOfLength key i ++ r.1, r.2)

/-- `iter(dfa)` run for at most `n` loop bodies: `(yields, generator exhausted)` or the
exception raised before the first yield. -/
def iterRun (d : DFA σ α) (key : α → Int) (n : Nat) : Res (List (List α) × Bool) :=
  match d.isEmpty with
  | true => .ok ([], true)
  | false =>
      match d.minimumWordLength with
      | .error e => .error e
      | .ok i =>
          match d.maximumWordLength with
          | .error e => .error e
          | .ok limit => .ok (d.iterLoop key limit n i)

/-! ### `random_word` -/

/-- The inner loop over `transition.items()`: the first entry whose cumulated count exceeds
`choice`; `none` when the loop falls through (impossible for `choice < total`). -/
def pickEdge (cnt : σ → Nat) : List (α × σ) → Nat → Option (α × σ)
  | [], _ => none
  | (a, t) :: rest, c =>
      match decide (c < cnt t) with
      | true => some (a, t)
      | false => pickEdge cnt rest (c - cnt t)

/-- `for remaining in range(k, 0, -1)`: `cs` are the successive results of
`rng.randint(0, total - 1)`; `randint` raises `ValueError` on an empty range.
`cnt r q` is `self._count_cache[r][q]`. -/
def randomWordLoop (d : DFA σ α) (cnt : Nat → σ → Nat) : Nat → σ → List Nat → List α → Res (List α × σ)
  | 0, q, _, acc => .ok (acc.reverse, q)
  | r + 1, q, cs, acc =>
      match decide (cnt (r + 1) q = 0) with
      | true => .error (.py .valueError)
      | false =>
          match pickEdge (cnt r) (d.row q) (cs.headD 0) with
          | some (a, t) => randomWordLoop d cnt r t cs.tail (a :: acc)
          | none => randomWordLoop d cnt r q cs.tail acc

/-- `random_word(k)` after the count cache has been populated, reading it through `cnt`. -/
def randomWordCore (d : DFA σ α) (cnt : Nat → σ → Nat) (k : Nat) (cs : List Nat) : Res (List α) :=
  match decide (cnt k d.init = 0) with
  | true => .error (.py .valueError)
  | false =>
      match d.randomWordLoop cnt k d.init cs [] with
      | .error e => .error e
      | .ok (w, q) =>
          match decide (q ∈ d.finals) with
          | true => .ok w
          | false => .error (.py .assertion)

/-- `random_word(k)` on a fresh object with the RNG outcomes `cs`. -/
def randomWord (d : DFA σ α) (k : Nat) (cs : List Nat) : Res (List α) :=
  d.randomWordCore (fun r q => cget (d.countLevel r) q) k cs

end DFA
end AV
