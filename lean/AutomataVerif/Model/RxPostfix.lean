/-
Model/RxPostfix.lean — automata/regex/postfix.py `validate_tokens`, `tokens_to_postfix`
and parser.py `add_concat_and_empty_string_tokens`.  (`parse_postfix_tokens` needs the
builder and lives in Model/RxCompile.lean.)  Lean core only.
-/
import AutomataVerif.Model.RxToken

namespace AV.Rx
variable {α : Type}

/-! ### validate_tokens -/

/-- `isinstance(tok, cls)` where `tok` may be the `None` padding of `zip_longest`. -/
def optIs (t : Option (Tok α)) (b : Base) : Bool :=
  match t with
  | none => false
  | some t => t.base == b

/-- One iteration of the `for prev_token, curr_token in zip_longest(...)` loop; the state is
`paren_counter`. -/
def validateStep (cnt : Int) (pc : Option (Tok α) × Option (Tok α)) : Res Int :=
  let prev := pc.1
  let curr := pc.2
  if prev.isNone && (optIs curr .infixOp || optIs curr .postfixOp) then
    .error (.lib .invalidRegexError)                  -- cannot appear at the start
  else if optIs prev .infixOp then
    if curr.isNone then .error (.lib .invalidRegexError)      -- cannot appear at the end
    else if optIs curr .infixOp || optIs curr .postfixOp || optIs curr .rparen then
      .error (.lib .invalidRegexError)
    else .ok cnt
  else if optIs prev .lparen then
    if optIs curr .infixOp || optIs curr .postfixOp then .error (.lib .invalidRegexError)
    else .ok (cnt + 1)
  else if optIs prev .rparen then
    if cnt - 1 < 0 then .error (.lib .invalidRegexError)       -- mismatched parenthesis
    else .ok (cnt - 1)
  else .ok cnt

/-- The pairs produced by `zip_longest(chain([None], token_list), token_list)`. -/
def validatePairs (ts : List (Tok α)) : List (Option (Tok α) × Option (Tok α)) :=
  List.zip (none :: ts.map some) (ts.map some ++ [none])

def validateLoop : Int → List (Option (Tok α) × Option (Tok α)) → Res Int
  | cnt, [] => .ok cnt
  | cnt, pc :: rest =>
      match validateStep cnt pc with
      | .error e => .error e
      | .ok cnt' => validateLoop cnt' rest

/-- `validate_tokens(token_list)`. -/
def validateTokens (ts : List (Tok α)) : Res Unit :=
  match validateLoop 0 (validatePairs ts) with
  | .error e => .error e
  | .ok cnt => if cnt != 0 then .error (.lib .invalidRegexError) else .ok ()   -- unclosed

/-! ### add_concat_and_empty_string_tokens -/

/-- What is appended after `curr` when `next` follows: one `ConcatToken` per matching entry
of `concat_pairs`, then one empty `StringToken` per matching entry of `empty_string_pairs`
(both tables regenerated from the source). -/
def inserted (curr next : Tok α) : List (Tok α) :=
  ((Gen.Regex.concatInsertPairs.filter fun p => curr.isInstance p.1 && next.isInstance p.2).map
      fun _ => Tok.concat) ++
  ((Gen.Regex.emptyStringPairs.filter fun p => curr.isInstance p.1 && next.isInstance p.2).map
      fun _ => Tok.str [])

def addConcat : List (Tok α) → List (Tok α)
  | [] => []
  | [t] => [t]
  | t :: u :: rest => t :: (inserted t u ++ addConcat (u :: rest))

/-! ### tokens_to_postfix (shunting-yard) -/

/-- `comp_precedence(a, b)`: `a.get_precedence() <= b.get_precedence()`. -/
def compPrec (a b : Tok α) : Res Bool :=
  match a.prec, b.prec with
  | some x, some y => .ok (decide (x ≤ y))
  | _, _ => .error (.py .attributeError)

/-- `while len(stack) > 0 and not isinstance(stack[-1], LeftParen): res.append(stack.pop())`
then `stack.pop()`; returns (emitted, remaining stack). -/
def popToLParen : List (Tok α) → Res (List (Tok α) × List (Tok α))
  | [] => .error (.py .indexError)            -- stack.pop() on an empty deque
  | t :: st =>
      if t.base == .lparen then .ok ([], st)
      else match popToLParen st with
        | .error e => .error e
        | .ok (out, st') => .ok (t :: out, st')

/-- `while stack and not isinstance(stack[-1], LeftParen) and comp_precedence(c, stack[-1])`. -/
def popWhilePrec (c : Tok α) : List (Tok α) → Res (List (Tok α) × List (Tok α))
  | [] => .ok ([], [])
  | t :: st =>
      if t.base == .lparen then .ok ([], t :: st)
      else match compPrec c t with
        | .error e => .error e
        | .ok false => .ok ([], t :: st)
        | .ok true =>
            match popWhilePrec c st with
            | .error e => .error e
            | .ok (out, st') => .ok (t :: out, st')

/-- `not stack or isinstance(stack[-1], LeftParen) or not comp_precedence(c, stack[-1])`. -/
def pushDirectly (c : Tok α) : List (Tok α) → Res Bool
  | [] => .ok true
  | t :: _ =>
      if t.base == Base.lparen then .ok true
      else match compPrec c t with
        | .error e => .error e
        | .ok b => .ok (!b)

/-- The `for c in tokens` loop; `stack` has its top at the head; the result is what is
appended to `res` from here on (including the final `while stack: res.append(stack.pop())`). -/
def toPostfixAux : List (Tok α) → List (Tok α) → Res (List (Tok α))
  | [], stack => .ok stack
  | c :: ts, stack =>
      if c.base == .literal then
        match toPostfixAux ts stack with
        | .error e => .error e
        | .ok out => .ok (c :: out)
      else if c.base == .rparen then
        match popToLParen stack with
        | .error e => .error e
        | .ok (em, st) =>
            match toPostfixAux ts st with
            | .error e => .error e
            | .ok out => .ok (em ++ out)
      else if c.base == .lparen then toPostfixAux ts (c :: stack)
      else
        match pushDirectly c stack with
        | .error e => .error e
        | .ok true => toPostfixAux ts (c :: stack)
        | .ok false =>
            match popWhilePrec c stack with
            | .error e => .error e
            | .ok (em, st) =>
                match toPostfixAux ts (c :: st) with
                | .error e => .error e
                | .ok out => .ok (em ++ out)

/-- `tokens_to_postfix(tokens)`. -/
def tokensToPostfix (ts : List (Tok α)) : Res (List (Tok α)) := toPostfixAux ts []

end AV.Rx
