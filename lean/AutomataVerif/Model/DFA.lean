/-
Model/DFA.lean — automata/fa/dfa.py: definition, validation, reading.
Mirrors: DFA.__init__ parameters, validate (in the order of the code),
_get_next_current_state, _check_for_input_rejection, read_input_stepwise,
Automaton.read_input / accepts_input / __contains__.
-/
import AutomataVerif.Model.Basic

namespace AV

/-- `DFA(states, input_symbols, transitions, initial_state, final_states, allow_partial)`.
Sets are lists (membership semantics), dicts are association lists in insertion order. -/
structure DFA (σ α : Type) where
  states : List σ
  syms : List α
  trans : List (σ × List (α × σ))
  init : σ
  finals : List σ
  allowPartial : Bool
  deriving Repr

namespace DFA
variable {σ α : Type} [DecidableEq σ] [DecidableEq α]

/-- `self.transitions.get(q)`. -/
def row? (d : DFA σ α) (q : σ) : Option (List (α × σ)) := alookup q d.trans

/-- `self.transitions.get(q, {})`. -/
def row (d : DFA σ α) (q : σ) : List (α × σ) := (d.row? q).getD []

/-- `_get_next_current_state`, with Python's failure modes: `transitions[current_state]`
raises `KeyError` when the row is missing.  `none` models the `None` sink. -/
def stepE (d : DFA σ α) : Option σ → α → Res (Option σ)
  | none, _ => .ok none
  | some q, a =>
    match d.row? q with
    | none => .error (.py .keyError)
    | some r => .ok (alookup a r)

/-- Total version used by theorems and by code that goes through `.get`. -/
def step? (d : DFA σ α) : Option σ → α → Option σ
  | none, _ => none
  | some q, a => alookup a (d.row q)

def run (d : DFA σ α) (q : Option σ) (w : List α) : Option σ := w.foldl d.step? q

/-- `current_state in self.final_states` (`None` is never final). -/
def isFinal (d : DFA σ α) : Option σ → Bool
  | none => false
  | some q => decide (q ∈ d.finals)

def accepts (d : DFA σ α) (w : List α) : Bool := d.isFinal (d.run (some d.init) w)

/-- Body of `read_input_stepwise` after the first yield: the list of yielded
configurations and the exception (if any) that ends the generator. -/
def readAux (d : DFA σ α) (ignoreRejection : Bool) : Option σ → List α → List (Option σ) × Option Exn
  | cur, [] =>
      ([], rejectUnless (ignoreRejection || d.isFinal cur))
  | cur, a :: w =>
      match d.stepE cur a with
      | .error e => ([], some e)
      | .ok nxt =>
          let r := readAux d ignoreRejection nxt w
          (nxt :: r.1, r.2)

/-- `read_input_stepwise(input_str, ignore_rejection)`: yields, then the terminating exception. -/
def readStepwise (d : DFA σ α) (w : List α) (ignoreRejection : Bool := false) :
    List (Option σ) × Option Exn :=
  let r := d.readAux ignoreRejection (some d.init) w
  (some d.init :: r.1, r.2)

/-- `Automaton.read_input`: last yielded configuration, unless the generator raised. -/
def readInput (d : DFA σ α) (w : List α) : Res (Option σ) :=
  let r := d.readStepwise w
  match r.2 with
  | some e => .error e
  | none => .ok (r.1.getLast?.getD (some d.init))

/-- `Automaton.accepts_input`: only `RejectionException` is caught. -/
def acceptsInput (d : DFA σ α) (w : List α) : Res Bool :=
  match d.readInput w with
  | .ok _ => .ok true
  | .error (.lib .rejectionException) => .ok false
  | .error e => .error e

/-- `item in dfa`: non-`str` items (`none`) are not members. -/
def contains (d : DFA σ α) : Option (List α) → Res Bool
  | none => .ok false
  | some w => d.acceptsInput w

/-! ### validation, in the order of the code -/

/-- `_validate_transition_start_states`. -/
def validateStartStates (d : DFA σ α) : Res Unit :=
  firstErr d.states fun q => guardE (ahas q d.trans) (.lib .missingStateError)

/-- `_validate_transitions(start_state, paths)`: missing symbols (complete DFAs only),
invalid symbols, invalid end states — in this order. -/
def validateRow (d : DFA σ α) (paths : List (α × σ)) : Res Unit :=
  (if d.allowPartial then .ok () else
    firstErr d.syms fun a => guardE (ahas a paths) (.lib .missingSymbolError)).andThen <|
  (firstErr (akeys paths) fun a => guardE (decide (a ∈ d.syms)) (.lib .invalidSymbolError)).andThen <|
  firstErr (avals paths) fun q => guardE (decide (q ∈ d.states)) (.lib .invalidStateError)

/-- `DFA.validate`. -/
def validate (d : DFA σ α) : Res Unit :=
  d.validateStartStates.andThen <|
  (firstErr d.trans fun kv => d.validateRow kv.2).andThen <|
  (guardE (decide (d.init ∈ d.states)) (.lib .invalidStateError)).andThen <|
  guardE (d.finals.all fun q => decide (q ∈ d.states)) (.lib .invalidStateError)

/-- The constructor under the two global options: validation happens iff
`should_validate_automata`; freezing does not change the value (C18). -/
def mk' (d : DFA σ α) (shouldValidate : Bool := true) : Res (DFA σ α) :=
  if shouldValidate then (match d.validate with | .ok _ => .ok d | .error e => .error e) else .ok d

end DFA
end AV
