/-
Model/DFAOps.lean — automata/fa/dfa.py: the lazy cross product, `_expand_dfa`,
Boolean operations, complement, to_complete / to_partial, `minify` / `_minify`
(Hopcroft refinement with the implicit trap), `PartitionRefinement` (base/utils.py).

Names.  Python invents names (trap ids `-1, -2, …`, the renaming counter of
`get_renaming_function`, `id(set)` for partition blocks).  The model uses
`Option σ` (`none` = the implicit trap), the BFS discovery index, and a fresh
counter; results are compared with the code up to isomorphism, and theorems are
about languages, validity and sizes, which are renaming-invariant.
-/
import AutomataVerif.Model.DFA

namespace AV
namespace DFA
variable {σ α : Type} [DecidableEq σ] [DecidableEq α]

/-! ### the digraph helpers (`_get_digraph`, `get_reachable_nodes`) -/

/-- Successors in `_get_digraph`: every target of the row of `q`. -/
def succStates (d : DFA σ α) (q : σ) : List σ := avals (d.row q)

/-- All nodes the digraph can contain: declared states, row keys and targets. -/
def graphNodes (d : DFA σ α) : List σ :=
  dedup (d.states ++ akeys d.trans ++ d.trans.flatMap fun kv => avals kv.2)

/-- `get_reachable_nodes(graph, [initial_state])`. -/
def accessible (d : DFA σ α) : List σ := bfs d.succStates d.graphNodes [d.init]

/-- Predecessors in the digraph. -/
def predStates (d : DFA σ α) (q : σ) : List σ :=
  (d.trans.filter fun kv => decide (q ∈ avals kv.2)).map Prod.fst

/-- `get_reachable_nodes(graph, final_states, reversed=True)`. -/
def coaccessible (d : DFA σ α) : List σ := bfs d.predStates d.graphNodes d.finals

/-! ### `_cross_product` -/

/-- Product states: `none` on a side is that side's trap id. -/
abbrev PState (σ : Type) := Option σ × Option σ

def sideRow (d : DFA σ α) : Option σ → List (α × σ)
  | none => []
  | some q => d.row q

/-- `expand_state_fn` of `_cross_product(lhs, rhs, lhs_relevant, rhs_relevant)`. -/
def crossSucc (A B : DFA σ α) (lrel rrel : Bool) (s : PState σ) : List (α × PState σ) :=
  let ta := A.sideRow s.1
  let tb := B.sideRow s.2
  (sunion (akeys ta) (akeys tb)).filterMap fun c =>
    if !lrel && !(ahas c ta) then none
    else if !rrel && !(ahas c tb) then none
    else some (c, (alookup c ta, alookup c tb))

/-- `lhs.input_symbols != rhs.input_symbols` (as sets). -/
def symsEq (A B : DFA σ α) : Bool :=
  A.syms.all (fun a => decide (a ∈ B.syms)) && B.syms.all (fun a => decide (a ∈ A.syms))

def isFinalO (d : DFA σ α) : Option σ → Bool := d.isFinal

/-! ### `_bfs_states`, `_expand_dfa` -/

/-- `_bfs_states(initial_state, expand_state_fn)` in discovery order. -/
def bfsStates {S : Type} [DecidableEq S] (succ : S → List (α × S)) (fuel : Nat) (init : S) : List S :=
  bfsN (fun s => avals (succ s)) fuel [init]

/-- `_expand_dfa(final_state_fn, initial_state, expand_state_fn, input_symbols,
retain_names=True, minify=False)`: rows in discovery order. -/
def expand {S : Type} [DecidableEq S] (succ : S → List (α × S)) (isFin : S → Bool)
    (syms : List α) (fuel : Nat) (init : S) : DFA S α :=
  let sts := bfsStates succ fuel init
  let trans := sts.map fun s => (s, succ s)
  { states := sts, syms := syms, trans := trans, init := init, finals := sts.filter isFin,
    allowPartial := trans.any fun kv => kv.2.length != syms.length }

/-- Renaming by `get_renaming_function(count(0))`: the BFS discovery index. -/
def renumber {S : Type} [DecidableEq S] (d : DFA S α) : DFA Nat α :=
  let f := fun s => indexOf s d.states
  { states := d.states.map f, syms := d.syms,
    trans := d.trans.map fun kv => (f kv.1, kv.2.map fun e => (e.1, f e.2)),
    init := f d.init, finals := d.finals.map f, allowPartial := d.allowPartial }

/-! ### `PartitionRefinement` -/

/-- `_sets` (id ↦ block, insertion order); `next` models the fresh `id(set)`. -/
structure Part (τ : Type) where
  blocks : List (Nat × List τ)
  next : Nat
  deriving Repr

namespace Part
variable {τ : Type} [DecidableEq τ]

/-- `PartitionRefinement(items)`: one block, id 0. -/
def init (items : List τ) : Part τ := { blocks := [(0, dedup items)], next := 1 }

/-- `_partition[x]`. -/
def blockOf (p : Part τ) (x : τ) : Option Nat :=
  (p.blocks.find? fun b => decide (x ∈ b.2)).map Prod.fst

/-- `get_set_by_id`. -/
def get (p : Part τ) (i : Nat) : List τ := (alookup i p.blocks).getD []

/-- `refine(S)`: split every block hit by `S` into `A ∩ S` (new id) and `A \ S`
(old id) when both are non-empty; returns the pairs `(id(A∩S), id(A))`. -/
def refine (p : Part τ) (S : List τ) : Part τ × List (Nat × Nat) :=
  let hit := dedup (S.filterMap p.blockOf)
  hit.foldl (fun (acc : Part τ × List (Nat × Nat)) aid =>
    let A := acc.1.get aid
    let inter := A.filter fun x => decide (x ∈ S)
    if inter.length < A.length then
      let nid := acc.1.next
      ({ blocks := (acc.1.blocks.map fun b =>
                      if b.1 = aid then (aid, A.filter fun x => decide (x ∉ S)) else b) ++ [(nid, inter)],
         next := nid + 1 },
       acc.2 ++ [(nid, aid)])
    else acc) (p, [])

end Part

/-! ### `_minify` -/

/-- Names of the minimised DFA: a block of original states, or the state `0` of
`empty_language` (returned when every kept state is equivalent to the trap). -/
inductive MinName (σ : Type)
  | blk (b : List σ)
  | zero
  deriving DecidableEq, Repr

/-- The deterministic system Hopcroft works on: kept states ∪ {trap}; a target that is
missing or not kept is the trap (`none`). -/
def mdelta (kept : List σ) (trans : List (σ × List (α × σ))) : Option σ → α → Option σ
  | none, _ => none
  | some q, a =>
    match alookup a ((alookup q trans).getD []) with
    | some t => if t ∈ kept then some t else none
    | none => none

/-- Whether the implicit trap state is created at all. -/
def needTrap (kept : List σ) (syms : List α) (trans : List (σ × List (α × σ))) : Bool :=
  kept.any fun q => syms.any fun a => (mdelta kept trans (some q) a).isNone

/-- The universe of the refinement. -/
def muniverse (kept : List σ) (syms : List α) (trans : List (σ × List (α × σ))) : List (Option σ) :=
  kept.map some ++ (if needTrap kept syms trans then [none] else [])

/-- One symbol of the inner loop: refine by the predecessors of `active`, then update
the waiting set `W` (`processing`). -/
def hopSymbol (U : List (Option σ)) (delta : Option σ → α → Option σ) (active : List (Option σ))
    (acc : Part (Option σ) × List Nat) (a : α) : Part (Option σ) × List Nat :=
  let X := U.filter fun s => decide (delta s a ∈ active)
  let r := acc.1.refine X
  let W := r.2.foldl (fun (W : List Nat) (pr : Nat × Nat) =>
    if pr.2 ∈ W then sinsert pr.1 W
    else if (r.1.get pr.1).length ≤ (r.1.get pr.2).length then sinsert pr.1 W
    else sinsert pr.2 W) acc.2
  (r.1, W)

/-- The `while processing:` loop.  `pick` models the arbitrary `set.pop()`. -/
def hopLoop (U : List (Option σ)) (delta : Option σ → α → Option σ) (syms : List α)
    (pick : List Nat → Nat) : Nat → Part (Option σ) → List Nat → Part (Option σ)
  | 0, p, _ => p
  | _ + 1, p, [] => p
  | fuel + 1, p, w :: ws =>
    let W := w :: ws
    let i := pick W % W.length
    let id := W.getD i w
    let W' := W.eraseIdx i
    let active := p.get id
    let r := syms.foldl (hopSymbol U delta active) (p, W')
    hopLoop U delta syms pick fuel r.1 r.2

/-- The partition computed by `_minify` (before the quotient is built). -/
def hopcroft (kept : List σ) (syms : List α) (trans : List (σ × List (α × σ)))
    (finals : List σ) (pick : List Nat → Nat) : Part (Option σ) :=
  let U := muniverse kept syms trans
  let p0 := Part.init U
  let r := p0.refine (finals.map some)
  let fid := match r.2 with
    | pr :: _ => pr.1
    | [] => 0
  hopLoop U (mdelta kept trans) syms pick (2 * U.length + 2) r.1 [fid]

/-- Original states of a block (the trap is never in a block that is kept). -/
def blockStates (b : List (Option σ)) : List σ := b.filterMap id

/-- `_minify(reachable_states, input_symbols, transitions, initial_state,
reachable_final_states, retain_names=True)`. -/
def minifyCore (kept : List σ) (syms : List α) (trans : List (σ × List (α × σ))) (init : σ)
    (finals : List σ) (pick : List Nat → Nat) : DFA (MinName σ) α :=
  let p := hopcroft kept syms trans finals pick
  let good := p.blocks.filter fun b => !(b.2.contains none)
  let nameOf : σ → Option (MinName σ) := fun q =>
    (good.find? fun b => b.2.contains (some q)).map fun b => MinName.blk (blockStates b.2)
  if good.isEmpty then
    -- `cls.empty_language(input_symbols)`
    { states := [MinName.zero], syms := syms,
      trans := [(MinName.zero, syms.map fun a => (a, MinName.zero))],
      init := MinName.zero, finals := [], allowPartial := false }
  else
    let newTrans := good.map fun b =>
      let rep := (blockStates b.2).head?
      let row := match rep with
        | none => []
        | some r => ((alookup r trans).getD []).filterMap fun e =>
            match nameOf e.2 with
            | some nm => some (e.1, nm)
            | none => none
      (MinName.blk (blockStates b.2), row)
    { states := good.map fun b => MinName.blk (blockStates b.2), syms := syms, trans := newTrans,
      init := (nameOf init).getD MinName.zero,
      finals := dedup (finals.filterMap nameOf),
      allowPartial := newTrans.any fun kv => kv.2.length != syms.length }

/-- `minify(retain_names)`: the kept states of the pre-pass. -/
def minifyKept (d : DFA σ α) : List σ :=
  if d.allowPartial then
    sinsert d.init (d.accessible.filter fun q => decide (q ∈ d.coaccessible))
  else
    bfsStates (fun q => d.row q) (d.graphNodes.length + 1) d.init

def minify (d : DFA σ α) (pick : List Nat → Nat := fun _ => 0) : DFA (MinName σ) α :=
  let kept := d.minifyKept
  minifyCore kept d.syms d.trans d.init (d.finals.filter fun q => decide (q ∈ kept)) pick

/-! ### `to_complete`, `_to_complete`, `to_partial`, `complement` -/

/-- `any(len(lookup) != len(input_symbols) for lookup in transitions.values())`. -/
def looksPartial (d : DFA σ α) : Bool := d.trans.any fun kv => kv.2.length != d.syms.length

/-- `_to_complete(..., trap_state)`: `{**default_to_trap, **lookup}` keeps the alphabet
order first, then any extra keys of the row. -/
def toCompleteCore (d : DFA σ α) (trap : σ) : DFA σ α :=
  let fill := fun (row : List (α × σ)) =>
    (d.syms.map fun a => (a, (alookup a row).getD trap)) ++ row.filter fun e => decide (e.1 ∉ d.syms)
  let trans := (d.trans.map fun kv => (kv.1, fill kv.2))
  let trans := ainsert trap (d.syms.map fun a => (a, trap)) trans
  { states := akeys trans, syms := d.syms, trans := trans, init := d.init, finals := d.finals,
    allowPartial := false }

/-- `to_complete(trap_state)`; `custom = false` models `trap_state=None` where the
harness supplies the id `_get_trap_state_id()` found by the code. -/
def toComplete (d : DFA σ α) (trap : σ) (custom : Bool) : Res (DFA σ α) :=
  if !d.looksPartial then .ok d
  else if custom && decide (trap ∈ d.states) then .error (.lib .invalidStateError)
  else .ok (d.toCompleteCore trap)

/-- `to_partial(retain_names, minify=False)`. -/
def toPartialPlain (d : DFA σ α) : DFA σ α :=
  let nonTrap := d.coaccessible
  let newStates := sinsert d.init (d.accessible.filter fun q => decide (q ∈ nonTrap))
  { states := newStates, syms := d.syms,
    trans := (d.trans.filter fun kv => decide (kv.1 ∈ newStates)).map fun kv =>
      (kv.1, kv.2.filter fun e => decide (e.2 ∈ nonTrap)),
    init := d.init, finals := d.finals.filter fun q => decide (q ∈ newStates), allowPartial := true }

/-- `to_partial(retain_names, minify=True)`. -/
def toPartialMin (d : DFA σ α) (pick : List Nat → Nat := fun _ => 0) : DFA (MinName σ) α :=
  let kept := sinsert d.init (d.accessible.filter fun q => decide (q ∈ d.coaccessible))
  minifyCore kept d.syms d.trans d.init (d.finals.filter fun q => decide (q ∈ kept)) pick

/-- `complement(minify=False)` of an already complete DFA (the caller completes first). -/
def complementPlain (c : DFA σ α) : DFA σ α :=
  { c with finals := c.states.filter (fun q => decide (q ∉ c.finals)), allowPartial := false }

/-- `complement(minify=True)` of an already complete DFA. -/
def complementMin (c : DFA σ α) (pick : List Nat → Nat := fun _ => 0) : DFA (MinName σ) α :=
  let kept := bfsStates (fun q => c.row q) (c.graphNodes.length + 1) c.init
  minifyCore kept c.syms c.trans c.init (kept.filter fun q => decide (q ∉ c.finals)) pick

/-! ### Boolean operations -/

inductive BinOp | union | inter | diff | symm
  deriving DecidableEq, Repr

def BinOp.lrel : BinOp → Bool
  | .union => true | .inter => false | .diff => false | .symm => true
def BinOp.rrel : BinOp → Bool
  | .union => true | .inter => false | .diff => true | .symm => true
def BinOp.fin (op : BinOp) (a b : Bool) : Bool :=
  match op with
  | .union => a || b
  | .inter => a && b
  | .diff => a && !b
  | .symm => xor a b

/-- Enough fuel for the product BFS: |states_A ∪ {trap}| · |states_B ∪ {trap}| + 1. -/
def prodFuel (A B : DFA σ α) : Nat := (A.graphNodes.length + 1) * (B.graphNodes.length + 1) + 1

/-- `A.op(B, retain_names=True, minify=False)`. -/
def binopPlain (op : BinOp) (A B : DFA σ α) : Res (DFA (PState σ) α) :=
  if !A.symsEq B then .error (.lib .symbolMismatchError)
  else .ok (expand (A.crossSucc B op.lrel op.rrel)
    (fun s => op.fin (A.isFinalO s.1) (B.isFinalO s.2)) A.syms (A.prodFuel B) (some A.init, some B.init))

/-- `A.op(B, retain_names=True, minify=True)`. -/
def binopMin (op : BinOp) (A B : DFA σ α) (pick : List Nat → Nat := fun _ => 0) :
    Res (DFA (MinName (PState σ)) α) :=
  match binopPlain op A B with
  | .error e => .error e
  | .ok P => .ok (minifyCore P.states P.syms P.trans P.init P.finals pick)

end DFA
end AV
