/-
Model/DFASucc.lean — automata/fa/dfa.py: `successors` (the explicit-stack traversal) and its
wrappers `successor`, `predecessors`, `predecessor` (property C14).

The generator body is a step function on
    (state_stack, char_stack, candidate, should_yield)
with the three yield points of the code:
  * the *successor* yield at the top of the loop body (pre-order, `candidate == first_symbol`),
  * the *predecessor* yield in the `else` branch (post-order, `candidate is None`),
  * the *predecessor* yield for the empty word after the loop, which looks at the **bottom**
    of the state stack (`state_stack[-1]` when `char_stack` is empty) — fix 322a5c4.
Both stacks are kept top-first (`state_stack[-1]` is the head), the word on the stack is
`chars.reverse`.  `None` entries of the state stack come from reading an unreadable prefix
(`read_input_stepwise(input_str, ignore_rejection=True)`).

Python failure modes kept explicit: `sorted_symbols[-1]` on an empty alphabet (`IndexError`,
finding F14), `symbol_succ[candidate]` for a popped symbol outside the alphabet (`KeyError`,
finding F13); both are open findings of C14 (proved to occur: Proofs/SuccForeign.lean) and
unreachable for start strings over a non-empty alphabet.
The generator can be infinite (forward direction on an infinite language without
`max_length`), hence the loop takes `fuel` = number of loop iterations and reports
`outOfFuel`; results are monotone in the fuel.
-/
import AutomataVerif.Model.DFAQuery

namespace AV
namespace DFA
variable {σ α : Type} [DecidableEq σ] [DecidableEq α]

/-- Keyword arguments of `successors` other than the start string and the key. -/
structure SuccOpts where
  strict : Bool := true
  reverse : Bool := false
  minLen : Nat := 0
  maxLen : Option Nat := none
  deriving Repr, DecidableEq

/-- What the set-up part of `successors` computes once. -/
structure SuccCfg (σ α : Type) where
  coacc : List σ                      -- `coaccessible_nodes`
  first : α                           -- `first_symbol`
  symSucc : List (α × Option α)       -- `symbol_succ`, read with `alookup` (last write first)
  deriving Repr

/-- Loop variables. -/
structure SuccState (σ α : Type) where
  states : List (Option σ)            -- `state_stack`, top first
  chars : List α                      -- `char_stack`, top first
  cand : Option α                     -- `candidate`
  shouldYield : Bool
  deriving Repr

inductive SuccStatus
  | finished                          -- generator exhausted
  | outOfFuel
  | raised (e : Exn)
  deriving Repr, DecidableEq

/-- `sorted(self.input_symbols, reverse=reverse, key=key)` (stable in both directions). -/
def sortedSymbols (d : DFA σ α) (key : α → Int) (reverse : Bool) : List α :=
  match reverse with
  | false => sortBy (fun a b => decide (key a < key b)) d.syms
  | true => sortBy (fun a b => decide (key b < key a)) d.syms

/-- `symbol_succ = {a: b for a, b in pairwise(sorted_symbols)}; symbol_succ[last] = None`
as the list of writes, most recent first (so that `alookup` returns the value a Python
dict holds after all writes). -/
def symbolSucc (sorted : List α) (last : α) : List (α × Option α) :=
  ((sorted.zip (sorted.tail.map some)) ++ [(last, none)]).reverse

/-- `min_length <= len(char_stack) and (max_length is None or len(char_stack) <= max_length)`. -/
def inWindow (o : SuccOpts) (n : Nat) : Bool :=
  decide (o.minLen ≤ n) &&
    (match o.maxLen with
     | none => true
     | some m => decide (n ≤ m))

/-- `max_length is None or len(char_stack) < max_length`. -/
def belowMax (o : SuccOpts) (n : Nat) : Bool :=
  match o.maxLen with
  | none => true
  | some m => decide (n < m)

/-- `candidate_state in coaccessible_nodes` (`None` is not a node). -/
def viable (c : SuccCfg σ α) : Option σ → Bool
  | none => false
  | some q => decide (q ∈ c.coacc)

def yieldIf (b : Bool) (chars : List α) : Option (List α) :=
  match b with
  | true => some chars.reverse
  | false => none

/-- One execution of the `while` body: the word yielded in it (if any), then the next loop
variables or the exception that ends the generator. -/
def succStep (d : DFA σ α) (o : SuccOpts) (c : SuccCfg σ α) (s : SuccState σ α) :
    Option (List α) × Res (SuccState σ α) :=
  match s.states with
  | [] => (none, .error (.py .indexError))          -- `state_stack[-1]`, never empty
  | state :: restStates =>
    let n := s.chars.length
    match s.cand with
    | some a =>
      -- successors yield here
      let y := yieldIf (!o.reverse && s.shouldYield && inWindow o n && decide (a = c.first)
                        && d.isFinal state) s.chars
      let candState := d.step? state a             -- `_get_next_current_state(state, candidate)`
      match viable c candState && belowMax o n with
      | true =>                                    -- traverse to child
        (y, .ok { states := candState :: s.states, chars := a :: s.chars,
                  cand := some c.first, shouldYield := true })
      | false =>                                   -- next sibling
        match alookup a c.symSucc with
        | none => (y, .error (.py .keyError))
        | some nxt => (y, .ok { s with cand := nxt, shouldYield := true })
    | none =>
      -- predecessors yield here; then traverse to parent
      let y := yieldIf (o.reverse && s.shouldYield && inWindow o n && d.isFinal state) s.chars
      match s.chars with
      | [] => (y, .error (.py .indexError))        -- `char_stack.pop()`, excluded by the loop test
      | ch :: chars' =>
        match alookup ch c.symSucc with
        | none => (y, .error (.py .keyError))      -- start string with a foreign symbol (F13)
        | some nxt => (y, .ok { states := restStates, chars := chars', cand := nxt,
                                shouldYield := true })

/-- The code after the loop: predecessor yield for the empty word. -/
def succFinal (d : DFA σ α) (o : SuccOpts) (s : SuccState σ α) : List (List α) × SuccStatus :=
  match s.states with
  | [] => ([], .raised (.py .indexError))
  | bottom :: _ =>
    ((yieldIf (o.reverse && s.shouldYield && inWindow o s.chars.length && s.cand.isNone
               && d.isFinal bottom) s.chars).toList, .finished)

/-- `while char_stack or candidate is not None:` for at most `fuel` iterations. -/
def succLoop (d : DFA σ α) (o : SuccOpts) (c : SuccCfg σ α) :
    Nat → SuccState σ α → List (List α) × SuccStatus
  | 0, _ => ([], .outOfFuel)
  | fuel + 1, s =>
    match s.chars.isEmpty && s.cand.isNone with
    | true => succFinal d o s
    | false =>
      match succStep d o c s with
      | (y, .error e) => (y.toList, .raised e)
      | (y, .ok s') =>
        let r := succLoop d o c fuel s'
        (y.toList ++ r.1, r.2)

/-- The body of `successors` given the outcome `fin` of its `self.isfinite()` call (made only
when `reverse`) and the graph `g` returned by `self._get_digraph()`. -/
def successorsCore (d : DFA σ α) (fin : Res Bool) (g : Digraph σ) (key : α → Int)
    (input : Option (List α)) (o : SuccOpts) (fuel : Nat) : List (List α) × SuccStatus :=
  match fin with
  | .error e => ([], .raised e)
  | .ok false => ([], .raised (.lib .infiniteLanguageException))
  | .ok true =>
    let coacc := g.reachable d.finals true
    let sorted := d.sortedSymbols key o.reverse
    match sorted.getLast?, sorted.head? with
    | some last, some first =>
      let c : SuccCfg σ α := { coacc := coacc, first := first, symSucc := symbolSucc sorted last }
      match input with
      | none =>
        succLoop d o c fuel { states := [some d.init], chars := [], cand := some first,
                              shouldYield := true }
      | some w =>
        match d.readStepwise w true with
        | (_, some e) => ([], .raised e)
        | (tr, none) =>
          succLoop d o c fuel
            { states := tr.reverse, chars := w.reverse,
              cand := (match o.reverse with | true => none | false => some first),
              shouldYield := !o.strict }
    | _, _ => ([], .raised (.py .indexError))       -- `sorted_symbols[-1]`, empty alphabet (F14)

/-- The code of `successors` before the loop, as one value: the exception it raises, or the
configuration and the initial loop variables (`successorsCore = succSetup` then `succLoop`:
`successorsCore_eq_setup` in Proofs/SuccGen.lean).  Used for generator objects that are
advanced one `next()` at a time (Model/DFACache.lean). -/
def succSetup (d : DFA σ α) (fin : Res Bool) (g : Digraph σ) (key : α → Int)
    (input : Option (List α)) (o : SuccOpts) : Res (SuccCfg σ α × SuccState σ α) :=
  match fin with
  | .error e => .error e
  | .ok false => .error (.lib .infiniteLanguageException)
  | .ok true =>
    let coacc := g.reachable d.finals true
    let sorted := d.sortedSymbols key o.reverse
    match sorted.getLast?, sorted.head? with
    | some last, some first =>
      let c : SuccCfg σ α := { coacc := coacc, first := first, symSucc := symbolSucc sorted last }
      match input with
      | none =>
        .ok (c, { states := [some d.init], chars := [], cand := some first, shouldYield := true })
      | some w =>
        match d.readStepwise w true with
        | (_, some e) => .error e
        | (tr, none) =>
          .ok (c, { states := tr.reverse, chars := w.reverse,
                    cand := (match o.reverse with | true => none | false => some first),
                    shouldYield := !o.strict })
    | _, _ => .error (.py .indexError)

/-- `if reverse and not self.isfinite()`: the call is made only for `reverse=True`. -/
def finiteGuard (d : DFA σ α) (reverse : Bool) : Res Bool :=
  match reverse with
  | true => d.isFinite
  | false => .ok true

/-- `successors(input_str, strict, key, reverse, min_length, max_length)` on a fresh object:
the words yielded within `fuel` loop iterations and how the run ended. -/
def successors (d : DFA σ α) (key : α → Int) (input : Option (List α)) (o : SuccOpts)
    (fuel : Nat) : List (List α) × SuccStatus :=
  d.successorsCore (d.finiteGuard o.reverse) d.digraph key input o fuel

/-- `predecessors(input_str, …)` = `successors(input_str, …, reverse=True)`.  The annotation
says `str`, but the argument is passed through unchanged, so `predecessors(None)` (all words
in decreasing order) is accepted like `successors(None, reverse=True)`. -/
def predecessors (d : DFA σ α) (key : α → Int) (input : Option (List α)) (o : SuccOpts) (fuel : Nat) :
    List (List α) × SuccStatus :=
  d.successors key input { o with reverse := true } fuel

/-- Result of the single-step wrappers: `for word in gen: return word; return None`. -/
inductive FirstResult (α : Type)
  | word (w : List α)
  | none                                -- Python `None`
  | outOfFuel
  | raised (e : Exn)
  deriving Repr, DecidableEq

def firstOf (r : List (List α) × SuccStatus) : FirstResult α :=
  match r.1, r.2 with
  | w :: _, _ => .word w
  | [], .finished => .none
  | [], .outOfFuel => .outOfFuel
  | [], .raised e => .raised e

/-- `successor(input_str, …)`. -/
def successor (d : DFA σ α) (key : α → Int) (input : Option (List α)) (o : SuccOpts)
    (fuel : Nat) : FirstResult α :=
  firstOf (d.successors key input { o with reverse := false } fuel)

/-- `predecessor(input_str, …)` (`None` is passed through to `predecessors`). -/
def predecessor (d : DFA σ α) (key : α → Int) (input : Option (List α)) (o : SuccOpts) (fuel : Nat) :
    FirstResult α :=
  firstOf (d.predecessors key input o fuel)

end DFA
end AV
