/-
Model/GNFAValidate.lean — automata/fa/gnfa.py: the GNFA definition and `GNFA.validate`
(in the order of the code), used by C12 (every `GNFA(...)` construction validates, whatever
the global option says: `__post_init__` is overridden) and by C19.

Python → Lean:
* a label `Optional[str]` is `Option ℓ`; the model is generic in the label type `ℓ`
  (`ℓ := Str = List Char` is the code; `ℓ := Rx` is the AST level of the C12 theorems);
* `transitions : dict state → dict state → Optional[str]` is an association list of
  association lists (insertion order, first match wins);
* `re._validate(regex)` (lexer + `validate_tokens`) is a parameter `rxValid`; `simpleRxValid`
  below is a character-level model of it for labels without `{`.  The instance shared with the
  C10/C11 lexer model (quantifier rule included) is `reValidate` (Model/GNFARe.lean), which the
  driver runs; Proofs/GnfaReValidate.lean proves the two equal on strings without `{`.
-/
import AutomataVerif.Model.Basic

namespace AV

/-- Python `str` as the list of its code points. -/
abbrev Str := List Char

/-- `GNFA(states, input_symbols, transitions, initial_state, final_state)`. -/
structure GNFA (σ ℓ : Type) where
  states : List σ
  syms : List Char
  trans : List (σ × List (σ × Option ℓ))
  init : σ
  final : σ
  deriving Repr, DecidableEq

/-! ### `re._validate` for the label syntax -/

/-- Token classes of `automata/regex/postfix.py` that `validate_tokens` distinguishes. -/
inductive RxTok
  | lparen | rparen | infix | postfix | lit
  deriving DecidableEq, Repr

/-- Python's `\s` (`str.isspace` on one character): the lexer's `\S` rule matches everything
else.  Same set as `AV.Rx.isPySpace` of the C10 lexer model. -/
def pyIsSpace (c : Char) : Bool :=
  let n := c.toNat
  (0x9 ≤ n && n ≤ 0xd) || (0x1c ≤ n && n ≤ 0x1f) || n == 0x20 || n == 0x85 || n == 0xa0 ||
  n == 0x1680 || (0x2000 ≤ n && n ≤ 0x200a) || n == 0x2028 || n == 0x2029 || n == 0x202f ||
  n == 0x205f || n == 0x3000

/-- `Lexer.lex` with the rules of `get_regex_lexer`, one token per character (first
registered rule wins among equally long matches; the quantifier rule `\{(.*?),(.*?)\}` is
not modelled: labels containing `{` are outside this function's domain).  Blanks (`' '`,
`'\t'`) are skipped, any other white space raises `LexerError`. -/
def lexSimple : Str → Res (List RxTok)
  | [] => .ok []
  | c :: s =>
    match lexSimple s with
    | .error e => .error e   -- the only error `lex` raises is `LexerError`
    | .ok ts =>
      if c = '(' then .ok (.lparen :: ts)
      else if c = ')' then .ok (.rparen :: ts)
      else if c = '|' || c = '&' || c = '^' then .ok (.infix :: ts)
      else if c = '*' || c = '+' || c = '?' then .ok (.postfix :: ts)
      else if c = ' ' || c = '\t' then .ok ts
      else if pyIsSpace c then .error (.lib .lexerError)
      else .ok (.lit :: ts)

/-- One iteration of the loop of `validate_tokens` on the pair `(prev, curr)`; returns the
new parenthesis counter or `none` for `raise InvalidRegexError`. -/
def validatePair (prev curr : Option RxTok) (paren : Int) : Option Int :=
  if prev = none ∧ (curr = some .infix ∨ curr = some .postfix) then none
  else if prev = some .infix then
    if curr = none then none
    else if curr = some .infix ∨ curr = some .postfix ∨ curr = some .rparen then none
    else some paren
  else if prev = some .lparen then
    if curr = some .infix ∨ curr = some .postfix then none else some (paren + 1)
  else if prev = some .rparen then
    if paren - 1 < 0 then none else some (paren - 1)
  else some paren

/-- The loop over `zip_longest(chain([None], tokens), tokens)` and the final test. -/
def validateTokensAux : Option RxTok → List RxTok → Int → Bool
  | prev, [], paren =>
    match validatePair prev none paren with
    | none => false
    | some p => p == 0
  | prev, t :: ts, paren =>
    match validatePair prev (some t) paren with
    | none => false
    | some p => validateTokensAux (some t) ts p

def validateTokens (ts : List RxTok) : Bool := validateTokensAux none ts 0

/-- `re._validate(regex)`: `True`/`False`, or the `LexerError` that escapes it. -/
def simpleRxValid (s : Str) : Res Bool :=
  match lexSimple s with
  | .error e => .error e
  | .ok ts => .ok (validateTokens ts)

/-- The condition of `_validate_transition_invalid_symbols` on one label that is not `None`:
`set(regex) - check and regex != "" or not re._validate(regex)` raises `InvalidRegexError`. -/
def strLabelCheck (rxValid : Str → Res Bool) (syms : List Char) (regex : Str) : Res Unit :=
  if regex.any (fun c => decide (c ∉ syms ++ ['*', '|', '(', ')', '?'])) && regex != [] then
    .error (.lib .invalidRegexError)
  else
    match rxValid regex with
    | .error e => .error e
    | .ok true => .ok ()
    | .ok false => .error (.lib .invalidRegexError)

namespace GNFA
variable {σ ℓ : Type} [DecidableEq σ]

/-- `_validate_transition_invalid_symbols(start_state, paths)`. -/
def validateLabels (labelCheck : ℓ → Res Unit) (paths : List (σ × Option ℓ)) : Res Unit :=
  firstErr (avals paths) fun l =>
    match l with
    | none => .ok ()
    | some r => labelCheck r

/-- `self.states - paths.keys() - {self.initial_state} != set()`. -/
def missingTargets (g : GNFA σ ℓ) (paths : List (σ × Option ℓ)) : Bool :=
  g.states.any fun q => decide (q ∉ akeys paths) && decide (q ≠ g.init)

/-- `_validate_transition_end_states(start_state, paths)`. -/
def validateEndStates (g : GNFA σ ℓ) (start : σ) (paths : List (σ × Option ℓ)) : Res Unit :=
  (if start = g.final then
      guardE (paths.length == 0) (.lib .invalidStateError)
    else
      -- the two `elif` branches (start is / is not the initial state) test the same condition
      guardE (!g.missingTargets paths) (.lib .missingStateError)).andThen <|
  firstErr (akeys paths) fun q => guardE (decide (q ∈ g.states)) (.lib .invalidStateError)

/-- `GNFA.validate` (as repaired by fix 084dfed: final ≠ initial, a row for every non-final
state, no labelled transition into the initial state):
`_validate_initial_state`, `_validate_final_state`, `initial_state == final_state`,
`for state in states: state != final_state and state not in transitions`, then per row
(invalid symbols, end states, `paths.get(initial_state) is not None`), and last
`_validate_initial_state_transitions`. -/
def validate (labelCheck : ℓ → Res Unit) (g : GNFA σ ℓ) : Res Unit :=
  (guardE (decide (g.init ∈ g.states)) (.lib .invalidStateError)).andThen <|
  (guardE (decide (g.final ∈ g.states)) (.lib .invalidStateError)).andThen <|
  (guardE (decide (g.init ≠ g.final)) (.lib .invalidStateError)).andThen <|
  (firstErr g.states fun q =>
    guardE (decide (q = g.final) || ahas q g.trans) (.lib .missingStateError)).andThen <|
  (firstErr g.trans fun kv =>
    (validateLabels labelCheck kv.2).andThen <|
    (g.validateEndStates kv.1 kv.2).andThen <|
    guardE (match alookup g.init kv.2 with | some (some _) => false | _ => true)
      (.lib .invalidStateError)).andThen <|
  guardE (ahas g.init g.trans || decide (g.states.length ≤ 1)) (.lib .missingStateError)

/-- The constructor: `__post_init__` validates unconditionally. -/
def mk' (labelCheck : ℓ → Res Unit) (g : GNFA σ ℓ) : Res (GNFA σ ℓ) :=
  match g.validate labelCheck with
  | .ok _ => .ok g
  | .error e => .error e

/-- Validation of the code's GNFA (string labels). -/
def validateStr (rxValid : Str → Res Bool) (g : GNFA σ Str) : Res Unit :=
  g.validate (strLabelCheck rxValid g.syms)

end GNFA
end AV
