/-
Model/RxCompare.lean — the operations regex.py `isequal / issubset / issuperset` call on the
compiled NFAs, as executable definitions: the model of the expression `nfa_a == nfa_b`
(`NFA.eqOp`, Model/NFAEq.lean — C09) and of `nfa_a.union(nfa_b)` (`NFA.union`,
Model/NFAOps.lean — C08), packaged with the types the parametric helpers of
Model/RxCompile.lean (`Rx.isequal eq`, `Rx.issubset eq uni`, `Rx.issuperset eq uni`) expect.

Lean core only, so that the driver executable (`RX_CMP`) runs exactly the definitions
`Props/C11b.lean` proves `C11_comparisons_lib` about.
-/
import AutomataVerif.Model.RxCompile
import AutomataVerif.Model.NFAEq
import AutomataVerif.Model.NFAOps

namespace AV.Rx
open AV AV.NFA

/-- A union–find representative choice for the subset states of two `Nat`-state operands
(`Props/C09.lean` calls this type `Pick Nat Nat`). -/
abbrev PickNat :=
  HKG.UF (List Nat ⊕ List Nat) → List Nat ⊕ List Nat → List Nat ⊕ List Nat → Bool

/-- `nfa_a == nfa_b` as the Boolean the helpers return: the model `eqOp` of the expression `==`
(C09; `p₁`, `p₂` = the union–find's choices of representatives on the direct / reflected call).
`eqOp` answers `none` when its fuel runs out; `C11_comparisons_calls` shows that this never
happens on the calls the helpers make, so the default is never used. -/
def eqLib (p₁ p₂ : PickNat) (A B : NFA Nat Char) : Bool := (eqOp p₁ p₂ A B).getD false

/-- `nfa_a.union(nfa_b)`: the model `NFA.union` (C08).  `NFA.union` is `Res`-valued (table
look-ups, constructor validation); `C11_comparisons_calls` shows that it returns `.ok` on the
calls the helpers make, so the fallback is never used. -/
def uniLib (A B : NFA Nat Char) : NFA Nat Char :=
  match NFA.union A B with
  | .ok R => R
  | .error _ => A

/-- The representative choice the drivers use (the one `Props/C09.lean` calls `exPick`). -/
def drvPick : PickNat := HKG.nxPick fun _ _ => true

end AV.Rx
