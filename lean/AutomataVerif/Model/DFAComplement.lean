/-
Model/DFAComplement.lean — `DFA.complement(retain_names, minify)` as the code composes it
(complete first iff `allow_partial`, then flip the final states / `_minify` the reachable
part with flipped final states).  These are the definitions the C04 theorems
(`C04_complement`, `C04_complement_min`, `C04_expr_*`) are about AND the ones the driver
command DFA_COMPLEMENT executes.  Lean core only.
-/
import AutomataVerif.Model.DFAOps

namespace AV
namespace DFA
variable {σ α : Type} [DecidableEq σ] [DecidableEq α]

/-- `complement(minify=False)`: complete first iff `allow_partial`, then flip the final
states.  `trap` is the id `_get_trap_state_id()` finds (some name outside `states`). -/
def complementFull (d : DFA σ α) (trap : σ) : Res (DFA σ α) :=
  match (if d.allowPartial then d.toComplete trap false else .ok d) with
  | .ok C => .ok C.complementPlain
  | .error e => .error e

/-- `complement(minify=True)`: complete first iff `allow_partial`, then `_minify` on the
reachable part with flipped final states. -/
def complementMinFull (d : DFA σ α) (trap : σ) (pick : List Nat → Nat) :
    Res (DFA (MinName σ) α) :=
  match (if d.allowPartial then d.toComplete trap false else .ok d) with
  | .ok C => .ok (C.complementMin pick)
  | .error e => .error e

end DFA
end AV
