/-
Model/NFAEdit.lean — automata/fa/nfa.py `NFA.edit_distance` (Lean core only).
States are the grid points `(i, e)`: `i` symbols of the reference string consumed,
`e` edits spent.
-/
import AutomataVerif.Model.NFATable

namespace AV
namespace NFA
variable {α : Type} [DecidableEq α]

/-- `add_any_transition(start_state_dict, end_state)`: one transition per input symbol. -/
def addAny (syms : List α) (t : Tbl (Nat × Nat) α) (q tgt : Nat × Nat) : Tbl (Nat × Nat) α :=
  syms.foldl (fun t s => Tbl.addTargets t q (some s) [tgt]) t

/-- Body of the first loop, for `(i, symbol)` of `enumerate(reference_str)` and `e`. -/
def editCell (syms : List α) (K : Nat) (ins del sub : Bool) (t : Tbl (Nat × Nat) α)
    (c : (α × Nat) × Nat) : Tbl (Nat × Nat) α :=
  let symbol := c.1.1
  let i := c.1.2
  let e := c.2
  let q := (i, e)
  let t := Tbl.touch t q
  -- correct character
  let t := Tbl.addTargets t q (some symbol) [(i + 1, e)]
  if e < K then
    let t := if ins then addAny syms t q (i, e + 1) else t
    let t := if del then Tbl.addTargets t q none [(i + 1, e + 1)] else t
    if sub then addAny syms t q (i + 1, e + 1) else t
  else t

/-- Body of the second loop (last column of the grid). -/
def editLast (syms : List α) (n K : Nat) (ins : Bool)
    (acc : Tbl (Nat × Nat) α × List (Nat × Nat)) (e : Nat) : Tbl (Nat × Nat) α × List (Nat × Nat) :=
  let q := (n, e)
  let t := Tbl.touch acc.1 q
  let t := if ins && decide (e < K) then addAny syms t q (n, e + 1) else t
  (t, sinsert q acc.2)

/-- `NFA.edit_distance(input_symbols, reference_str, max_edit_distance, insertion=…,
deletion=…, substitution=…)`. -/
def editDistance (syms : List α) (ref : List α) (k : Int) (ins del sub : Bool) :
    Res (NFA (Nat × Nat) α) :=
  if k < 0 then .error (.py .valueError)
  else if !(ins || del || sub) then .error (.py .valueError)
  else
    let K := k.toNat
    let n := ref.length
    let states := lprod (List.range (n + 1)) (List.range (K + 1))
    let t1 := (lprod ref.zipIdx (List.range (K + 1))).foldl (editCell syms K ins del sub) []
    let r := (List.range (K + 1)).foldl (editLast syms n K ins) (t1, [])
    create { states := states, syms := syms, trans := r.1, init := (0, 0), finals := r.2 }

end NFA
end AV
