/-
Model/HK.lean — the Hopcroft–Karp equivalence loop of `DFA.__eq__` / `NFA.__eq__`,
generically over an implicit deterministic system (Lean core only).

  state_sets = UnionFind([a, b]); state_sets.union(a, b); pair_stack.append((a, b))
  while pair_stack:
      q_a, q_b = pair_stack.pop()
      if is_final_state(q_a) ^ is_final_state(q_b): return False
      for symbol in input_symbols:
          r_1 = state_sets[transition(q_a, symbol)]; r_2 = state_sets[transition(q_b, symbol)]
          if r_1 != r_2: state_sets.union(r_1, r_2); pair_stack.append((r_1, r_2))
  return True

`networkx.utils.union_find.UnionFind` is modelled by its observable contract: `X[x]` is
the representative (root) of the class of `x` (unknown elements are singletons), and
`union(r₁, r₂)` of two distinct roots makes one of them the root of the merged class
— networkx takes the heavier class and breaks ties by set-iteration order, so *which*
root wins is a parameter `pick` of the model; the correctness theorem
(`Proofs/HK.lean`) holds for every `pick`.
-/
import AutomataVerif.Model.Basic

namespace AV.HKG

/-- Union–find as a root map: `(x, r)` says that the class of `x` is named `r`;
elements without an entry are their own root. -/
structure UF (S : Type) where
  root : List (S × S)
  deriving Repr

variable {S α : Type} [DecidableEq S]

/-- `state_sets[x]`. -/
def UF.find (u : UF S) (x : S) : S := (alookup x u.root).getD x

/-- Make `w` the name of the class of `l` (both are roots): `parents[l] = w`. -/
def UF.link (u : UF S) (w l : S) : UF S :=
  ⟨(l, w) :: u.root.map fun e => (e.1, if e.2 = l then w else e.2)⟩

/-- `weights[r]`: number of elements of the class named `r`. -/
def UF.weight (u : UF S) (r : S) : Nat :=
  1 + (u.root.filter fun e => decide (e.2 = r) && !decide (e.1 = r)).length

/-- networkx's choice: the heavier root wins, `tie` decides between equal weights
(`true`: the first argument becomes the root). -/
def nxPick (tie : S → S → Bool) (u : UF S) (r₁ r₂ : S) : Bool :=
  if u.weight r₂ < u.weight r₁ then true
  else if u.weight r₁ < u.weight r₂ then false
  else tie r₁ r₂

/-- `state_sets.union(r₁, r₂)` for two distinct roots. -/
def UF.union (pick : UF S → S → S → Bool) (u : UF S) (r₁ r₂ : S) : UF S :=
  if pick u r₁ r₂ then u.link r₁ r₂ else u.link r₂ r₁

/-- Body of `for symbol in input_symbols` for the popped pair `(qa, qb)`. -/
def stepSym (step : S → α → S) (pick : UF S → S → S → Bool) (qa qb : S)
    (acc : UF S × List (S × S)) (a : α) : UF S × List (S × S) :=
  let r₁ := acc.1.find (step qa a)
  let r₂ := acc.1.find (step qb a)
  if r₁ = r₂ then acc else (acc.1.union pick r₁ r₂, (r₁, r₂) :: acc.2)

/-- The `while pair_stack` loop; `none` = out of fuel. -/
def loop (step : S → α → S) (isFinal : S → Bool) (syms : List α) (pick : UF S → S → S → Bool) :
    Nat → UF S → List (S × S) → Option Bool
  | 0, _, _ => none
  | _ + 1, _, [] => some true
  | fuel + 1, u, (qa, qb) :: stack =>
    if isFinal qa != isFinal qb then some false
    else
      let acc := syms.foldl (stepSym step pick qa qb) (u, stack)
      loop step isFinal syms pick fuel acc.1 acc.2

/-- The whole procedure from the start pair `(a, b)`. -/
def run (step : S → α → S) (isFinal : S → Bool) (syms : List α) (pick : UF S → S → S → Bool)
    (fuel : Nat) (a b : S) : Option Bool :=
  let u : UF S := if a = b then ⟨[]⟩ else UF.union pick ⟨[]⟩ a b
  loop step isFinal syms pick fuel u [(a, b)]

end AV.HKG
