/-
Model/Convert.lean — DFA.from_nfa (subset construction through `_expand_dfa`),
NFA.from_dfa, NFA._eliminate_lambda / eliminate_lambda, `_compute_reachable_states`.
-/
import AutomataVerif.Model.DFAOps
import AutomataVerif.Model.NFA

namespace AV
variable {σ α : Type} [DecidableEq σ] [DecidableEq α]

namespace NFA

/-- A frozenset of states as a canonical sublist of `n.states` (set equality = list equality). -/
def canon (n : NFA σ α) (S : List σ) : List σ := n.states.filter fun q => decide (q ∈ S)

/-- `_iterate_through_symbol_path_pairs(current_states)`: symbols in order of first
appearance; empty-string entries and empty target sets are skipped; targets are closed. -/
def subsetSucc (n : NFA σ α) (S : List σ) : List (α × List σ) :=
  let entries : List (α × List σ) := S.flatMap fun q =>
    (n.row q).filterMap fun e =>
      match e.1 with
      | some a => if e.2.isEmpty then none else some (a, e.2)
      | none => none
  (dedup (entries.map Prod.fst)).map fun a =>
    (a, n.canon ((entries.filter fun e => decide (e.1 = a)).flatMap fun e => e.2.flatMap n.closure))

/-- `not current_states.isdisjoint(final_states)`. -/
def subsetFinal (n : NFA σ α) (S : List σ) : Bool := S.any fun q => decide (q ∈ n.finals)

/-- `DFA.from_nfa(n, retain_names=True, minify=False)`. -/
def toDFA (n : NFA σ α) : DFA (List σ) α :=
  DFA.expand n.subsetSucc n.subsetFinal n.syms (2 ^ n.states.length + 1) (n.canon (n.closure n.init))

/-- `DFA.from_nfa(n, retain_names=True, minify=True)`. -/
def toDFAMin (n : NFA σ α) (pick : List Nat → Nat := fun _ => 0) : DFA (DFA.MinName (List σ)) α :=
  let P := n.toDFA
  DFA.minifyCore P.states P.syms P.trans P.init P.finals pick

/-- `DFA.from_nfa(n)` with the library's DEFAULT options `retain_names=False, minify=True`:
`_expand_dfa` renames every subset state by its BFS discovery index while it builds the
table, and `_minify` is called on that renumbered table (int names, trap id `-1`). -/
def toDFAMinRenum (n : NFA σ α) (pick : List Nat → Nat := fun _ => 0) : DFA (DFA.MinName Nat) α :=
  let P := n.toDFA.renumber
  DFA.minifyCore P.states P.syms P.trans P.init P.finals pick

/-- `_compute_reachable_states(initial_state, transitions)`. -/
def reachableStates (init : σ) (trans : List (σ × List (Option α × List σ))) (fuel : Nat) : List σ :=
  bfsN (fun q => ((alookup q trans).getD []).flatMap fun e => e.2) fuel [init]

/-- One iteration of the `for state in self.states` loop of `_eliminate_lambda`. -/
def elimStep (n : NFA σ α)
    (acc : List (σ × List (Option α × List σ)) × List σ) (q : σ) :
    List (σ × List (Option α × List σ)) × List σ :=
  let encl := (n.closure q).filter fun p => decide (p ≠ q)
  let trans := n.syms.foldl (fun (tr : List (σ × List (Option α × List σ))) a =>
    let nxt := n.nextStates encl a
    if nxt.isEmpty then tr
    else
      let row := (alookup q tr).getD []
      let old := (alookup (some a) row).getD []
      ainsert q (ainsert (some a) (sunion old nxt) row) tr) acc.1
  let finals := if acc.2.any (fun p => decide (p ∈ encl)) then sinsert q acc.2 else acc.2
  let trans := match alookup q trans with
    | some row => ainsert q (row.filter fun e => e.1.isSome) trans
    | none => trans
  (trans, finals)

/-- `_eliminate_lambda` followed by the constructor call of `eliminate_lambda`. -/
def eliminateLambda (n : NFA σ α) : NFA σ α :=
  let r := n.states.foldl n.elimStep (n.trans, dedup n.finals)
  let reach := reachableStates n.init r.1 (n.nodes.length + 1)
  { states := reach, syms := n.syms,
    trans := r.1.filter fun kv => decide (kv.1 ∈ reach),
    init := n.init, finals := reach.filter fun q => decide (q ∈ r.2) }

/-- `NFA.from_dfa`. -/
def ofDFA (d : DFA σ α) : NFA σ α :=
  { states := d.states, syms := d.syms,
    trans := d.trans.map fun kv => (kv.1, kv.2.map fun e => (some e.1, [e.2])),
    init := d.init, finals := d.finals }

end NFA
end AV
