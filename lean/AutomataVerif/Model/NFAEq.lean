/-
Model/NFAEq.lean — automata/fa/nfa.py `NFA.__eq__` (extended Hopcroft–Karp over sets
of states) and the `==` / `!=` expressions built on it (Lean core only).

A subset state `(frozenset, operand_index)` is `Sum.inl S` / `Sum.inr S` with `S` the
canonical sublist of the operand's state list, so that frozenset equality is list equality.
-/
import AutomataVerif.Model.HK
import AutomataVerif.Model.NFA

namespace AV
namespace NFA
variable {σ σ₁ σ₂ α : Type} [DecidableEq σ] [DecidableEq σ₁] [DecidableEq σ₂] [DecidableEq α]

/-- A frozenset of states as the canonical sublist of `states`. -/
def subsetCanon (n : NFA σ α) (S : List σ) : List σ := n.states.filter fun q => decide (q ∈ S)

/-- `transition(states_pair, symbol)`. -/
def eqStep (A : NFA σ₁ α) (B : NFA σ₂ α) : List σ₁ ⊕ List σ₂ → α → List σ₁ ⊕ List σ₂
  | .inl S, a => .inl (A.subsetCanon (A.nextStates S a))
  | .inr S, a => .inr (B.subsetCanon (B.nextStates S a))

/-- `any(not nfa.final_states.isdisjoint(nfa._get_lambda_closures()[state]) for state in states)`. -/
def setFinal (n : NFA σ α) (S : List σ) : Bool :=
  S.any fun q => (n.closure q).any fun p => decide (p ∈ n.finals)

/-- `is_final_state(states_pair)`. -/
def eqIsFinal (A : NFA σ₁ α) (B : NFA σ₂ α) : List σ₁ ⊕ List σ₂ → Bool
  | .inl S => A.setFinal S
  | .inr S => B.setFinal S

/-- Result of calling `A.__eq__(B)`. -/
inductive EqRes
  | notImplemented
  | outOfFuel
  | val (b : Bool)
  deriving DecidableEq, Repr

/-- `self.input_symbols != other.input_symbols` (set comparison), negated. -/
def sameSyms (xs ys : List α) : Bool :=
  (xs.all fun a => decide (a ∈ ys)) && (ys.all fun a => decide (a ∈ xs))

/-- Enough fuel: every push merges two classes of subset states. -/
def eqFuel (A : NFA σ₁ α) (B : NFA σ₂ α) : Nat := 2 ^ A.states.length + 2 ^ B.states.length + 2

/-- `A.__eq__(B)`; `pick` = the union–find's choice of representative. -/
def eqImpl (pick : HKG.UF (List σ₁ ⊕ List σ₂) → List σ₁ ⊕ List σ₂ → List σ₁ ⊕ List σ₂ → Bool)
    (A : NFA σ₁ α) (B : NFA σ₂ α) : EqRes :=
  if sameSyms A.syms B.syms then
    match HKG.run (eqStep A B) (eqIsFinal A B) A.syms pick (eqFuel A B)
        (.inl (A.subsetCanon (A.closure A.init))) (.inr (B.subsetCanon (B.closure B.init))) with
    | some b => .val b
    | none => .outOfFuel
  else .notImplemented

/-- The expression `A == B` for two distinct objects: `A.__eq__(B)`, on `NotImplemented`
the reflected `B.__eq__(A)`, and if that is `NotImplemented` too, identity (`False`).
`none` = out of fuel. -/
def eqOp (pick₁ : HKG.UF (List σ₁ ⊕ List σ₂) → List σ₁ ⊕ List σ₂ → List σ₁ ⊕ List σ₂ → Bool)
    (pick₂ : HKG.UF (List σ₂ ⊕ List σ₁) → List σ₂ ⊕ List σ₁ → List σ₂ ⊕ List σ₁ → Bool)
    (A : NFA σ₁ α) (B : NFA σ₂ α) : Option Bool :=
  match eqImpl pick₁ A B with
  | .val b => some b
  | .outOfFuel => none
  | .notImplemented =>
    match eqImpl pick₂ B A with
    | .val b => some b
    | .outOfFuel => none
    | .notImplemented => some false

/-- The expression `A != B`: Python's default `__ne__` inverts `__eq__` unless it is
`NotImplemented`; the final fallback is `A is not B` (`True`). -/
def neOp (pick₁ : HKG.UF (List σ₁ ⊕ List σ₂) → List σ₁ ⊕ List σ₂ → List σ₁ ⊕ List σ₂ → Bool)
    (pick₂ : HKG.UF (List σ₂ ⊕ List σ₁) → List σ₂ ⊕ List σ₁ → List σ₂ ⊕ List σ₁ → Bool)
    (A : NFA σ₁ α) (B : NFA σ₂ α) : Option Bool :=
  match eqImpl pick₁ A B with
  | .val b => some (!b)
  | .outOfFuel => none
  | .notImplemented =>
    match eqImpl pick₂ B A with
    | .val b => some (!b)
    | .outOfFuel => none
    | .notImplemented => some true

end NFA
end AV
