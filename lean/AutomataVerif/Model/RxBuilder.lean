/-
Model/RxBuilder.lean — automata/regex/parser.py `NFARegexBuilder`:
`from_string_literal`, `wildcard`, `union`, `intersection`, `concatenate`, `repeat`,
`shuffle_product`, with the shared state-name counter (`itertools.count`) threaded explicitly.

Representation: `_transitions : Dict[int, Dict[str, Set[int]]]` is an association list of
association lists of lists-used-as-sets; the symbol `""` is `none`.  `d[k]` on a missing key
is an explicit `KeyError`.

State names.  Fresh names come from the counter.  Where the code obtains them through
`get_renaming_function(counter)` (a `defaultdict` filled in *encounter order* while iterating
Python sets and dicts — an order that depends on hash seeds), the model numbers the renamed
objects in a canonical order instead (position in the key list / in the BFS discovery list).
The block of names used and the counter afterwards are the same; the assignment inside the
block differs by a permutation.  The correspondence therefore compares compiled NFAs up to
isomorphism, and the theorems (language, validity, invariant) are invariant under it.
Lean core only.
-/
import AutomataVerif.Model.NFA

namespace AV.Rx
variable {α : Type} [DecidableEq α]

abbrev Row (α : Type) := List (Option α × List Nat)
abbrev Trans (α : Type) := List (Nat × Row α)

/-- The four slots of `NFARegexBuilder` except the counter (threaded separately). -/
structure Builder (α : Type) where
  trans : Trans α
  init : Nat
  finals : List Nat
  deriving Repr

/-- `d1.update(d2)`. -/
def aupdate {κ β : Type} [DecidableEq κ] (d1 d2 : List (κ × β)) : List (κ × β) :=
  d2.foldl (fun d kv => ainsert kv.1 kv.2 d) d1

/-- `row.setdefault(a, set()).add(t)`. -/
def addTarget (a : Option α) (t : Nat) (row : Row α) : Row α :=
  ainsert a (sinsert t ((alookup a row).getD [])) row

/-- `row.setdefault(a, set()).update(ts)`. -/
def addTargets (a : Option α) (ts : List Nat) (row : Row α) : Row α :=
  ainsert a (sunion ((alookup a row).getD []) ts) row

/-- `T[s].setdefault(a, set()).add(t)` — `KeyError` when `s` has no row. -/
def addEdgeE (T : Trans α) (s : Nat) (a : Option α) (t : Nat) : Res (Trans α) :=
  match alookup s T with
  | none => .error (.py .keyError)
  | some row => .ok (ainsert s (addTarget a t row) T)

/-- `for s in srcs: T[s].setdefault(a, set()).add(t)`. -/
def addEdgesE (T : Trans α) (srcs : List Nat) (a : Option α) (t : Nat) : Res (Trans α) :=
  srcs.foldlM (fun T s => addEdgeE T s a t) T

namespace Builder

def row (b : Builder α) (q : Nat) : Row α := (alookup q b.trans).getD []

/-- Targets of `q` on `a` (the same function as `NFA.targets` of the resulting NFA). -/
def targets (b : Builder α) (q : Nat) (a : Option α) : List Nat := (alookup a (b.row q)).getD []

def keys (b : Builder α) : List Nat := akeys b.trans

/-- `from_string_literal(literal, counter)`: states `c … c+n`, `c+i —literal[i]→ c+i+1`. -/
def fromStringLiteral (lit : List α) (c : Nat) : Builder α × Nat :=
  let n := lit.length
  ({ trans := (lit.zipIdx.map fun ai => (c + ai.2, [(some ai.1, [c + ai.2 + 1])])) ++ [(c + n, [])],
     init := c,                     -- min(transitions.keys())
     finals := [c + n] }, c + n + 1)

/-- `wildcard(input_symbols, counter)`. -/
def wildcard (syms : List α) (c : Nat) : Builder α × Nat :=
  ({ trans := [(c, syms.foldl (fun row a => ainsert (some a) [c + 1] row) []), (c + 1, [])],
     init := c, finals := [c + 1] }, c + 2)

/-- `self.union(other)`. -/
def union (b1 b2 : Builder α) (c : Nat) : Builder α × Nat :=
  ({ trans := ainsert c [(none, sinsert b2.init [b1.init])] (aupdate b1.trans b2.trans),
     init := c,
     finals := sunion b1.finals b2.finals }, c + 1)

/-- `self.concatenate(other)` (does not touch the counter). -/
def concatenate (b1 b2 : Builder α) : Res (Builder α) :=
  match addEdgesE (aupdate b1.trans b2.trans) b1.finals none b2.init with
  | .error e => .error e
  | .ok T => .ok { trans := T, init := b1.init, finals := b2.finals }

/-! #### repeat -/

/-- A copy of the transition dict under the renaming `f` (the dict comprehension in the
`for i in range(2, …)` loop). -/
def copyTrans (f : Nat → Nat) (T : Trans α) : Trans α :=
  T.map fun kv => (f kv.1, kv.2.map fun e => (e.1, dedup (e.2.map f)))

/-- Loop state of `repeat`. -/
structure RepState (α : Type) where
  T : Trans α              -- new_transitions
  prevFinals : List Nat    -- prev_final_states
  prevInit : Nat           -- prev_initial_state
  finals : List Nat        -- new_final_states
  ctr : Nat
  deriving Repr

/-- The renaming of copy number `i`: canonical numbering of the keys from the counter. -/
def copyName (b : Builder α) (base : Nat) (q : Nat) : Nat := base + b.keys.idxOf q

/-- Body of `for i in range(2, number_of_repetitions + 1)`. -/
def repeatStep (b : Builder α) (lo : Nat) (st : RepState α) (i : Nat) : Res (RepState α) :=
  let f := copyName b st.ctr
  let T1 := aupdate st.T (copyTrans f b.trans)
  match addEdgesE T1 st.prevFinals none (f b.init) with
  | .error e => .error e
  | .ok T2 =>
      let pf := dedup (b.finals.map f)
      .ok { T := T2, prevFinals := pf, prevInit := f b.init,
            finals := if lo ≤ i then sunion st.finals pf else st.finals,
            ctr := st.ctr + b.keys.length }

/-- `self.repeat(lower_bound, upper_bound)`. -/
def repeat_ (b : Builder α) (lo : Nat) (hi : Option Nat) (c : Nat) : Res (Builder α × Nat) :=
  let n := match hi with | none => lo | some h => h
  let newInit := c
  let T0 := ainsert newInit [(none, [b.init])] b.trans
  let fin0 : List Nat :=
    if lo ≤ 1 && (match hi with | none => true | some h => decide (1 ≤ h)) then b.finals else []
  let fin1 := if lo = 0 then sinsert b.init fin0 else fin0
  let st0 : RepState α :=
    { T := T0, prevFinals := b.finals, prevInit := b.init, finals := fin1, ctr := c + 1 }
  match (List.range' 2 (n - 1)).foldlM (repeatStep b lo) st0 with
  | .error e => .error e
  | .ok st =>
      match (match hi with
             | none => addEdgesE st.T st.prevFinals none st.prevInit
             | some _ => .ok st.T) with
      | .error e => .error e
      | .ok T => .ok ({ trans := T, init := newInit, finals := st.finals }, st.ctr)

/-! #### intersection -/

/-- Successors of a product state in the lazy product explored by `intersection`. -/
def prodSucc (b1 b2 : Builder α) (syms : List α) (pq : Nat × Nat) : List (Nat × Nat) :=
  (b1.targets pq.1 none).map (fun t => (t, pq.2)) ++
  (b2.targets pq.2 none).map (fun t => (pq.1, t)) ++
  syms.flatMap fun x =>
    (b1.targets pq.1 (some x)).flatMap fun t1 => (b2.targets pq.2 (some x)).map fun t2 => (t1, t2)

/-- `new_input_symbols`: every non-empty symbol on some row of either operand. -/
def transSyms (T : Trans α) : List α :=
  dedup (T.flatMap fun kv => kv.2.filterMap fun e => e.1)

/-- All pairs of keys (finite universe of the product BFS). -/
def pairUniverse (b1 b2 : Builder α) : List (Nat × Nat) :=
  b1.keys.flatMap fun p => b2.keys.map fun q => (p, q)

/-- The row the BFS body writes for product state `pq` (`name` = `get_state_name`). -/
def interRow (b1 b2 : Builder α) (syms : List α) (name : Nat × Nat → Nat) (pq : Nat × Nat) :
    Row α :=
  let r0 : Row α := []
  let r1 := match alookup none (b1.row pq.1) with
    | some ts => addTargets none (ts.map fun t => name (t, pq.2)) r0
    | none => r0
  let r2 := match alookup none (b2.row pq.2) with
    | some ts => addTargets none (ts.map fun t => name (pq.1, t)) r1
    | none => r1
  syms.foldl (fun r x =>
    match alookup (some x) (b1.row pq.1), alookup (some x) (b2.row pq.2) with
    | some ts1, some ts2 =>
        addTargets (some x) (ts1.flatMap fun t1 => ts2.map fun t2 => name (t1, t2)) r
    | _, _ => r) r2

/-- `self.intersection(other)`: BFS over the reachable product states. -/
def intersection (b1 b2 : Builder α) (c : Nat) : Builder α × Nat :=
  let syms := dedup (transSyms b1.trans ++ transSyms b2.trans)
  let reach := bfs (prodSucc b1 b2 syms) (pairUniverse b1 b2) [(b1.init, b2.init)]
  let name := fun pq => c + reach.idxOf pq
  ({ trans := reach.map fun pq => (name pq, interRow b1 b2 syms name pq),
     init := name (b1.init, b2.init),
     finals := (reach.filter fun pq => decide (pq.1 ∈ b1.finals) && decide (pq.2 ∈ b2.finals)).map name },
   c + reach.length)

/-! #### shuffle_product -/

def shuffleRow (b1 b2 : Builder α) (name : Nat × Nat → Nat) (pq : Nat × Nat) : Row α :=
  let r1 := (b1.row pq.1).foldl
    (fun r e => addTargets e.1 (e.2.map fun t => name (t, pq.2)) r) ([] : Row α)
  (b2.row pq.2).foldl (fun r e => addTargets e.1 (e.2.map fun t => name (pq.1, t)) r) r1

/-- `self.shuffle_product(other)`: every pair of keys is a state. -/
def shuffle (b1 b2 : Builder α) (c : Nat) : Builder α × Nat :=
  let pairs := pairUniverse b1 b2
  let name := fun pq => c + pairs.idxOf pq
  ({ trans := pairs.map fun pq => (name pq, shuffleRow b1 b2 name pq),
     init := name (b1.init, b2.init),
     finals := (b1.finals.flatMap fun p => b2.finals.map fun q => (p, q)).map name |> dedup },
   c + pairs.length)

/-- The NFA handed to `NFA(...)` by `from_regex`. -/
def toNFA (b : Builder α) (syms : List α) : NFA Nat α :=
  { states := b.keys, syms := syms, trans := b.trans, init := b.init, finals := b.finals }

end Builder
end AV.Rx
