/-
Model/RxToken.lean — the token classes of automata/regex (lexer.py `Token`, postfix.py
`Operator / InfixOperator / PostfixOperator / Literal / LeftParen / RightParen`, parser.py
`UnionToken … WildcardToken`).

The *classification* of a token (which `isinstance` tests it passes) and its precedence
are not written here: they are looked up, by class name, in the tables that
`harness/extract_tables.py` regenerates from the source on every run
(`AV.Gen.Regex.tokenClasses`).  Lean core only.
-/
import AutomataVerif.Model.Basic
import AutomataVerif.Generated.Regex

namespace AV.Rx

/-- A token object.  `str s` is `StringToken(text=s)` (one character when it comes from the
lexer, `""` when inserted for `()`); `quant lo hi` is a `QuantifierToken` that passed the
bound checks of its constructor; `concat` is the `ConcatToken("")` inserted by
`add_concat_and_empty_string_tokens`. -/
inductive Tok (α : Type)
  | lparen | rparen
  | union | inter | shuffle
  | star | plus | opt
  | quant (lo : Nat) (hi : Option Nat)
  | concat
  | str (s : List α)
  | wildcard
  deriving DecidableEq, Repr, Inhabited

/-- `type(token).__name__`. -/
def Tok.cls {α : Type} : Tok α → String
  | .lparen => "LeftParen"
  | .rparen => "RightParen"
  | .union => "UnionToken"
  | .inter => "IntersectionToken"
  | .shuffle => "ShuffleToken"
  | .star => "KleeneStarToken"
  | .plus => "KleenePlusToken"
  | .opt => "OptionToken"
  | .quant _ _ => "QuantifierToken"
  | .concat => "ConcatToken"
  | .str _ => "StringToken"
  | .wildcard => "WildcardToken"

/-- The five classes `isinstance` is ever asked about in postfix.py / parser.py. -/
inductive Base
  | literal | infixOp | postfixOp | lparen | rparen | unknown
  deriving DecidableEq, Repr, Inhabited

def Base.name : Base → String
  | .literal => "Literal"
  | .infixOp => "InfixOperator"
  | .postfixOp => "PostfixOperator"
  | .lparen => "LeftParen"
  | .rparen => "RightParen"
  | .unknown => "?"

/-- Base class of a token class, read off the regenerated class table. -/
def baseOfCls (c : String) : Base :=
  if c == "LeftParen" then .lparen
  else if c == "RightParen" then .rparen
  else match Gen.Regex.tokenClasses.find? (fun t => t.1 == c) with
    | some (_, b, _) =>
        if b == "Literal" then .literal
        else if b == "InfixOperator" then .infixOp
        else if b == "PostfixOperator" then .postfixOp
        else .unknown
    | none => .unknown

def Tok.base {α : Type} (t : Tok α) : Base := baseOfCls t.cls

/-- `token.get_precedence()` (`none`: the class has no such method → `AttributeError`). -/
def Tok.prec {α : Type} (t : Tok α) : Option Nat := Gen.Regex.precOf t.cls

/-- `isinstance(token, <class named c>)` for the five base classes. -/
def Tok.isInstance {α : Type} (t : Tok α) (c : String) : Bool := t.base.name == c

def Tok.isOperator {α : Type} (t : Tok α) : Bool :=
  match t.base with
  | .infixOp => true
  | .postfixOp => true
  | _ => false

end AV.Rx
