/-
Model/DfaCtor.lean — automata/fa/dfa.py, the language constructors (C15), core only.

Mirrors, function by function: `from_prefix`, `from_suffix`, `from_substring` (KMP table with
the strong-failure optimisation, `limit`, `must_be_suffix`), `from_substrings` (Aho–Corasick:
trie with labels in creation order, failure links, output links, absorbing end state unless
suffix mode), `from_subsequence`, `of_length`, `count_mod`, `universal_language`,
`empty_language`, `nth_from_start`, `nth_from_end`, `from_finite_language` (trie + signature
register + compression) and `_to_complete`.

Conventions:
* state names are the Python `int`s the code uses (`Int`, the error state of `from_prefix` is
  `-1`); `from_finite_language` names states by prefixes (`FLName.pref`) and uses the integer
  `0` (`FLName.zero`) as trap / as the state of `empty_language`;
* `input_symbols` is a list in the iteration order of the live Python set (theorems assume
  `Nodup` only where the code takes `len(input_symbols)`); a dict comprehension over it is
  `rowOf`; `d[k] = v` is `ainsert`, `d.setdefault(k, v)` is `asetdefault`;
* `cls(...)` validates: every constructor ends in `build` (= `DFA.mk'`), so the library
  exceptions of `validate` are part of the result;
* Python failure modes are explicit: `seq[i]` is `pyGet` (`IndexError`, negative indices count
  from the end), `d[k]` is a `KeyError` branch, `ValueError`/`InvalidSymbolError` are raised
  where the code raises them;
* every `while` loop takes fuel; running out of fuel is reported as `outOfFuel`
  (an `AssertionError`, which the real code never raises here — the theorems prove that the
  result is `.ok`, i.e. that the fuel given by the model always suffices).
-/
import AutomataVerif.Model.DFA

namespace AV.Ctor

variable {α : Type} [DecidableEq α]

/-- Outcome of a `while` loop whose fuel ran out (never happens: see the theorems). -/
def outOfFuel : Exn := .py .assertion

/-- `{symbol: f(symbol) for symbol in input_symbols}`. -/
def rowOf {σ : Type} (syms : List α) (f : α → σ) : List (α × σ) := syms.map fun a => (a, f a)

/-- The dict after `d.setdefault(k, v)`. -/
def asetdefault {κ β : Type} [DecidableEq κ] (k : κ) (v : β) (d : List (κ × β)) : List (κ × β) :=
  if ahas k d then d else d ++ [(k, v)]

/-- `cls(states=…, input_symbols=…, …)`: the constructor validates its arguments. -/
def build {σ : Type} [DecidableEq σ] (d : DFA σ α) : Res (DFA σ α) := d.mk' true

/-- `n` as a Python `int`. -/
def nat (n : Nat) : Int := Int.ofNat n

/-- `states - final_states`. -/
def sdiff {σ : Type} [DecidableEq σ] (s t : List σ) : List σ := s.filter fun q => decide (q ∉ t)

/-! ### universal_language / empty_language -/

/-- One state `z` looping on every symbol. -/
def loopDFA {σ : Type} (z : σ) (syms : List α) (final : Bool) : DFA σ α :=
  { states := [z], syms := syms, trans := [(z, rowOf syms fun _ => z)], init := z,
    finals := if final then [z] else [], allowPartial := false }

/-- `DFA.universal_language(input_symbols)`. -/
def universalLanguage (syms : List α) : Res (DFA Int α) := build (loopDFA 0 syms true)

/-- `DFA.empty_language(input_symbols)`. -/
def emptyLanguage (syms : List α) : Res (DFA Int α) := build (loopDFA 0 syms false)

/-! ### from_prefix -/

/-- `{i: {char: i + 1} for i, char in enumerate(prefix)}`. -/
def chainRows (p : List α) : List (Int × List (α × Int)) :=
  p.zipIdx.map fun ci => (nat ci.2, [(ci.1, nat ci.2 + 1)])

/-- `for symbol in input_symbols: state_path.setdefault(symbol, err_state)`. -/
def fillRow (syms : List α) (err : Int) (row : List (α × Int)) : List (α × Int) :=
  syms.foldl (fun r a => asetdefault a err r) row

/-- The transition table of `from_prefix`. -/
def prefixTable (syms p : List α) (complete : Bool) : List (Int × List (α × Int)) :=
  let last : Int := nat p.length
  let t0 := ainsert last (rowOf syms fun _ => last) (chainRows p)
  if complete then
    ainsert (-1) (rowOf syms fun _ => (-1 : Int)) (t0.map fun kv => (kv.1, fillRow syms (-1) kv.2))
  else t0

/-- `DFA.from_prefix(input_symbols, prefix, contains=…, as_partial=…)`. -/
def fromPrefix (syms p : List α) (contains : Bool := true) (asPartial : Bool := true) :
    Res (DFA Int α) :=
  let last : Int := nat p.length
  let t := prefixTable syms p (!asPartial || !contains)
  let states := akeys t
  let isPartial := t.any fun kv => kv.2.length != syms.length
  build { states := states, syms := syms, trans := t, init := 0,
          finals := if contains then [last] else sdiff states [last],
          allowPartial := isPartial }

/-! ### from_substring / from_suffix (Knuth–Morris–Pratt) -/

/-- Python `seq[i]`: negative indices count from the end, out of range is `IndexError`. -/
def pyGet {β : Type} (l : List β) (i : Int) : Res β :=
  let j : Int := if i < 0 then i + nat l.length else i
  if j < 0 then .error (.py .indexError) else
  match l[j.toNat]? with
  | some x => .ok x
  | none => .error (.py .indexError)

/-- `while candidate >= 0 and char != substring[candidate]: candidate = kmp_table[candidate]`. -/
def kmpBack (p : List α) (tbl : List Int) (char : α) : Nat → Int → Res Int
  | 0, _ => .error outOfFuel
  | fuel + 1, cand =>
    if cand ≥ 0 then
      match pyGet p cand with
      | .error e => .error e
      | .ok pc =>
        if char ≠ pc then
          match pyGet tbl cand with
          | .error e => .error e
          | .ok k => kmpBack p tbl char fuel k
        else .ok cand
    else .ok cand

/-- One iteration of `for i, char in enumerate(substring)` on `(kmp_table, candidate)`. -/
def kmpTableStep (p : List α) (st : List Int × Int) (char : α) (i : Nat) : Res (List Int × Int) :=
  if i = 0 then .ok st            -- `continue`: skips `candidate += 1` as well
  else
    match pyGet p st.2 with
    | .error e => .error e
    | .ok pc =>
      if char = pc then
        match pyGet st.1 st.2 with
        | .error e => .error e
        | .ok k => .ok (st.1.set i k, st.2 + 1)
      else
        let tbl := st.1.set i st.2
        match kmpBack p tbl char (p.length + 1) st.2 with
        | .error e => .error e
        | .ok c => .ok (tbl, c + 1)

/-- The `enumerate` loop over the remaining characters `rest` (index of the first is `i`). -/
def kmpTableLoop (p : List α) : List α → Nat → List Int × Int → Res (List Int × Int)
  | [], _, st => .ok st
  | char :: rest, i, st =>
    match kmpTableStep p st char i with
    | .error e => .error e
    | .ok st' => kmpTableLoop p rest (i + 1) st'

/-- The complete `kmp_table` (length `len(substring) + 1`). -/
def kmpTable (p : List α) : Res (List Int) :=
  match kmpTableLoop p p 0 (p.map fun _ => (-1 : Int), 0) with
  | .error e => .error e
  | .ok st => .ok (st.1 ++ [st.2])

/-- `while candidate != -1 and substring[candidate] != symbol: candidate = kmp_table[candidate]`. -/
def kmpFwd (p : List α) (tbl : List Int) (a : α) : Nat → Int → Res Int
  | 0, _ => .error outOfFuel
  | fuel + 1, cand =>
    if cand ≠ -1 then
      match pyGet p cand with
      | .error e => .error e
      | .ok pc =>
        if pc ≠ a then
          match pyGet tbl cand with
          | .error e => .error e
          | .ok k => kmpFwd p tbl a fuel k
        else .ok cand
    else .ok cand

/-- The body of the inner `for symbol in input_symbols` loop: next state of `i` on `a`. -/
def kmpNext (p : List α) (tbl : List Int) (i : Nat) (a : α) : Res Int :=
  match (if i < p.length then .ok (nat i) else pyGet tbl (nat i) : Res Int) with
  | .error e => .error e
  | .ok c0 =>
    match kmpFwd p tbl a (p.length + 2) c0 with
    | .error e => .error e
    | .ok c => .ok (c + 1)

/-- A dict comprehension whose values may raise. -/
def rowOfM (f : α → Res Int) : List α → Res (List (α × Int))
  | [] => .ok []
  | a :: t =>
    match f a with
    | .error e => .error e
    | .ok v =>
      match rowOfM f t with
      | .error e => .error e
      | .ok r => .ok ((a, v) :: r)

/-- `for i in range(start, start + n)`: one row per `i`. -/
def rowsM (f : Nat → Res (List (α × Int))) : Nat → Nat → Res (List (Int × List (α × Int)))
  | 0, _ => .ok []
  | n + 1, start =>
    match f start with
    | .error e => .error e
    | .ok r =>
      match rowsM f n (start + 1) with
      | .error e => .error e
      | .ok rs => .ok ((nat start, r) :: rs)

/-- `DFA.from_substring(input_symbols, substring, contains=…, must_be_suffix=…)`. -/
def fromSubstring (syms p : List α) (contains : Bool := true) (mustBeSuffix : Bool := false) :
    Res (DFA Int α) :=
  -- `if not substring: return universal_language / empty_language` (every string contains and
  -- ends with the empty string)
  if p.isEmpty then (if contains then universalLanguage syms else emptyLanguage syms) else
  let m := p.length
  match kmpTable p with
  | .error e => .error e
  | .ok tbl =>
    let limit := if mustBeSuffix then m + 1 else m
    match rowsM (fun i => rowOfM (kmpNext p tbl i) syms) limit 0 with
    | .error e => .error e
    | .ok rows =>
      let t := if mustBeSuffix then rows else rows ++ [(nat m, rowOf syms fun _ => nat m)]
      let states := akeys t
      build { states := states, syms := syms, trans := t, init := 0,
              finals := if contains then [nat m] else sdiff states [nat m],
              allowPartial := false }

/-- `DFA.from_suffix(input_symbols, suffix, contains=…)`. -/
def fromSuffix (syms p : List α) (contains : Bool := true) : Res (DFA Int α) :=
  fromSubstring syms p contains true

/-! ### from_substrings (Aho–Corasick) -/

/-- A trie `Node`; nodes live in a list, the index of a node is its label
(`labels.setdefault(id(node), len(labels))`: labels are handed out in creation order). -/
structure ACNode (α : Type) where
  succ : List (α × Nat)          -- `successors` (insertion order), values are labels
  out : List (List α)            -- the `OutNode` chain as the list of its keywords; `[]` is `None`
  fail : Option Nat              -- `None` = not set (stands for the root)

def ACNode.empty : ACNode α := ⟨[], [], none⟩

def acGet (nodes : List (ACNode α)) (i : Nat) : ACNode α := nodes.getD i ACNode.empty

/-- One symbol of the insertion loop on `(nodes, current_node)`. -/
def acInsertSym (st : List (ACNode α) × Nat) (a : α) : List (ACNode α) × Nat :=
  let cur := acGet st.1 st.2
  match alookup a cur.succ with
  | some j => (st.1, j)
  | none =>
    let j := st.1.length
    (st.1.set st.2 { cur with succ := cur.succ ++ [(a, j)] } ++ [ACNode.empty], j)

/-- `for symbol in substring: …; current_node.out = OutNode(substring, None)`. -/
def acInsertWord (nodes : List (ACNode α)) (w : List α) : List (ACNode α) :=
  let st := w.foldl acInsertSym (nodes, 0)
  st.1.set st.2 { acGet st.1 st.2 with out := [w] }

/-- The trie of the pattern set (patterns in the iteration order of the live set). -/
def acTrie (pats : List (List α)) : List (ACNode α) := pats.foldl acInsertWord [ACNode.empty]

/-- `while st is not None and symbol not in st.successors: st = st.fail`. -/
def acFollow (nodes : List (ACNode α)) (a : α) : Nat → Option Nat → Res (Option Nat)
  | 0, _ => .error outOfFuel
  | _ + 1, none => .ok none
  | fuel + 1, some s =>
    if ahas a (acGet nodes s).succ then .ok (some s) else acFollow nodes a fuel (acGet nodes s).fail

/-- Body of `for symbol, successor in current_node.successors.items()` in the first BFS:
failure link and output link of `child`. -/
def acLink (nodes : List (ACNode α)) (cur : Nat) (a : α) (child : Nat) : Res (List (ACNode α)) :=
  match acFollow nodes a (nodes.length + 1) (acGet nodes cur).fail with
  | .error e => .error e
  | .ok st =>
    let fl := alookup a (acGet nodes (st.getD 0)).succ
    let c := acGet nodes child
    let out := match fl with
      | none => c.out
      | some f => c.out ++ (acGet nodes f).out
    .ok (nodes.set child { c with fail := fl, out := out })

def acLinkAll (cur : Nat) : List (α × Nat) → List (ACNode α) → Res (List (ACNode α))
  | [], nodes => .ok nodes
  | (a, child) :: rest, nodes =>
    match acLink nodes cur a child with
    | .error e => .error e
    | .ok nodes' => acLinkAll cur rest nodes'

/-- First BFS (`queue = deque(root.successors.values())`). -/
def acFailBfs : Nat → List Nat → List (ACNode α) → Res (List (ACNode α))
  | _, [], nodes => .ok nodes
  | 0, _ :: _, _ => .error outOfFuel
  | fuel + 1, cur :: queue, nodes =>
    let kids := (acGet nodes cur).succ
    match acLinkAll cur kids nodes with
    | .error e => .error e
    | .ok nodes' => acFailBfs fuel (queue ++ kids.map Prod.snd) nodes'

/-- The goto function of the second BFS: label of the next state of `cur` on `a`. -/
def acGoto (nodes : List (ACNode α)) (cur : Nat) (a : α) : Res Int :=
  match acFollow nodes a (nodes.length + 1) (some cur) with
  | .error e => .error e
  | .ok st => .ok (nat ((alookup a (acGet nodes (st.getD 0)).succ).getD 0))

/-- Second BFS (`queue = deque([root])`) on `(transitions, final_states)`. -/
def acTransBfs (syms : List α) (nodes : List (ACNode α)) :
    Nat → List Nat → List (Int × List (α × Int)) × List Int →
    Res (List (Int × List (α × Int)) × List Int)
  | _, [], acc => .ok acc
  | 0, _ :: _, _ => .error outOfFuel
  | fuel + 1, cur :: queue, acc =>
    let node := acGet nodes cur
    let finals := if node.out.isEmpty then acc.2 else sinsert (nat cur) acc.2
    match rowOfM (acGoto nodes cur) syms with
    | .error e => .error e
    | .ok row =>
      acTransBfs syms nodes fuel (queue ++ syms.filterMap fun a => alookup a node.succ)
        (ainsert (nat cur) row acc.1, finals)

/-- `DFA.from_substrings(input_symbols, substrings, contains=…, must_be_suffix=…)`. -/
def fromSubstrings (syms : List α) (pats : List (List α)) (contains : Bool := true)
    (mustBeSuffix : Bool := false) : Res (DFA Int α) :=
  -- `if "" in substrings: return universal_language / empty_language`
  if [] ∈ pats then (if contains then universalLanguage syms else emptyLanguage syms) else
  let trie := acTrie pats
  match acFailBfs (trie.length + 1) ((acGet trie 0).succ.map Prod.snd) trie with
  | .error e => .error e
  | .ok nodes =>
    match acTransBfs syms nodes (nodes.length + 1) [0] ([], []) with
    | .error e => .error e
    | .ok (t0, f0) =>
      let tf : List (Int × List (α × Int)) × List Int :=
        if mustBeSuffix then (t0, f0) else
          -- `end_state = len(labels)`: one label per trie node (nodes of patterns with symbols
          -- outside the alphabet have a label but no row)
          let e : Int := nat nodes.length
          let toEnd := rowOf syms fun _ => e
          (f0.foldl (fun t s => ainsert s toEnd t) (ainsert e toEnd t0), sinsert e f0)
      let states := akeys tf.1
      build { states := states, syms := syms, trans := tf.1, init := 0,
              finals := if contains then tf.2 else sdiff states tf.2,
              allowPartial := false }

/-! ### from_subsequence -/

/-- The ladder of `from_subsequence`: row `i` loops on every symbol except `subsequence[i]`,
which climbs (`transitions[prev_state][char] = next_state`); the last row (created by the last
iteration, or the initial `{0: …}` for the empty pattern) only loops. -/
def subseqRows (syms p : List α) : List (Int × List (α × Int)) :=
  ainsert (nat p.length) (rowOf syms fun _ => nat p.length)
    (p.zipIdx.map fun ci => (nat ci.2, ainsert ci.1 (nat ci.2 + 1) (rowOf syms fun _ => nat ci.2)))

/-- `DFA.from_subsequence(input_symbols, subsequence, contains=…)`. -/
def fromSubsequence (syms p : List α) (contains : Bool := true) : Res (DFA Int α) :=
  let t := subseqRows syms p
  let states := akeys t
  build { states := states, syms := syms, trans := t, init := 0,
          finals := if contains then [nat p.length] else sdiff states [nat p.length],
          allowPartial := false }

/-! ### of_length / count_mod -/

/-- `input_symbols.isdisjoint(symbols_to_count)`. -/
def isDisjoint (syms cnt : List α) : Bool := syms.all fun a => decide (a ∉ cnt)

/-- `min_length <= 0 and (max_length is None or max_length >= 0)`: does the counted length `0`
lie in the range? -/
def zeroInRange (minLen : Int) (maxLen : Option Int) : Bool :=
  decide (minLen ≤ 0) && (match maxLen with | none => true | some mx => decide (0 ≤ mx))

/-- `max_length is not None and max_length < max(min_length, 0)`: empty range of lengths. -/
def emptyRange (minLen : Int) (maxLen : Option Int) : Bool :=
  match maxLen with
  | none => false
  | some mx => decide (mx < max minLen 0)

/-- The body of `of_length` after the two early returns: the counting ladder, `cnt` being
`symbols_to_count` after defaulting. -/
def ofLengthCore (syms : List α) (minLen : Int) (maxLen : Option Int) (cnt : List α) :
    Res (DFA Int α) :=
  -- `len(length_range)`: `range(min_length)` or `range(max_length + 1)`
  let n : Nat := match maxLen with
    | none => minLen.toNat
    | some mx => (mx + 1).toNat
  let rows := (List.range n).map fun i =>
    (nat i, rowOf syms fun a => if a ∈ cnt then nat i + 1 else nat i)
  let last : Int := nat n
  let t := ainsert last (rowOf syms fun _ => last) rows
  let finals : List Int := match maxLen with
    | none => [last]
    | some mx => (List.range (mx + 1 - minLen).toNat).map fun j => minLen + nat j
  build { states := akeys t, syms := syms, trans := t, init := 0, finals := finals,
          allowPartial := false }

/-- `DFA.of_length(input_symbols, min_length=…, max_length=…, symbols_to_count=…)`: when no
symbol of the alphabet is counted every word has counted length `0` (universal or empty
language); an empty range of lengths gives the empty language; otherwise the ladder. -/
def ofLength (syms : List α) (minLen : Int := 0) (maxLen : Option Int := none)
    (count : Option (List α) := none) : Res (DFA Int α) :=
  let cnt := count.getD syms
  match isDisjoint syms cnt with
  | true =>
    match zeroInRange minLen maxLen with
    | true => universalLanguage syms
    | false => emptyLanguage syms
  | false =>
    match emptyRange minLen maxLen with
    | true => emptyLanguage syms
    | false => ofLengthCore syms minLen maxLen cnt

/-- `DFA.count_mod(input_symbols, k, remainders=…, symbols_to_count=…)`. -/
def countMod (syms : List α) (k : Int) (remainders : Option (List Int) := none)
    (count : Option (List α) := none) : Res (DFA Int α) :=
  if k ≤ 0 then .error (.py .valueError) else
  let cnt := count.getD syms
  let kn := k.toNat
  let t := (List.range kn).map fun i =>
    (nat i, rowOf syms fun a => if a ∈ cnt then nat ((i + 1) % kn) else nat i)
  build { states := akeys t, syms := syms, trans := t, init := 0,
          finals := remainders.getD [0], allowPartial := false }

/-! ### nth_from_start / nth_from_end -/

/-- `DFA.nth_from_start(input_symbols, symbol, n)`. -/
def nthFromStart (syms : List α) (s : α) (n : Int) : Res (DFA Int α) :=
  if n < 1 then .error (.py .valueError) else
  if s ∉ syms then .error (.lib .invalidSymbolError) else
  if syms.length = 1 then ofLength syms (minLen := n) else
  let nn := n.toNat
  let rows := (List.range nn).map fun i =>
    (nat i, if i + 1 = nn then ainsert s (n + 1) (rowOf syms fun _ => nat i + 1)
            else rowOf syms fun _ => nat i + 1)
  let t := ainsert (n + 1) (rowOf syms fun _ => n + 1) (ainsert n (rowOf syms fun _ => n) rows)
  build { states := akeys t, syms := syms, trans := t, init := 0, finals := [n + 1],
          allowPartial := false }

/-- `DFA.nth_from_end(input_symbols, symbol, n)`. -/
def nthFromEnd (syms : List α) (s : α) (n : Int) : Res (DFA Int α) :=
  if n < 1 then .error (.py .valueError) else
  if s ∉ syms then .error (.lib .invalidSymbolError) else
  if syms.length = 1 then ofLength syms (minLen := n) else
  let cnt := 2 ^ n.toNat
  let t := (List.range cnt).map fun x =>
    (nat x, rowOf syms fun a => if s = a then nat ((2 * x + 1) % cnt) else nat ((2 * x) % cnt))
  build { states := (List.range cnt).map nat, syms := syms, trans := t, init := 0,
          finals := ((List.range cnt).filter fun x => decide (cnt / 2 ≤ x)).map nat,
          allowPartial := false }

/-! ### from_finite_language -/

/-- State names of `from_finite_language`: prefixes (Python `str`) and the integer `0`
(trap of `_to_complete`, state of `empty_language`). -/
inductive FLName (α : Type)
  | pref (p : List α)
  | zero
  deriving DecidableEq, Repr

/-- Lexicographic `<` on words (`str.__lt__`) from a `<` on symbols. -/
def wordLt (lt : α → α → Bool) : List α → List α → Bool
  | [], [] => false
  | [], _ :: _ => true
  | _ :: _, [] => false
  | a :: u, b :: v => if lt a b then true else if lt b a then false else wordLt lt u v

def insertWord (lt : α → α → Bool) (w : List α) : List (List α) → List (List α)
  | [] => [w]
  | v :: t => if wordLt lt v w then v :: insertWord lt w t else w :: v :: t

/-- `sorted(language)`. -/
def sortWords (lt : α → α → Bool) (l : List (List α)) : List (List α) :=
  l.foldr (insertWord lt) []

abbrev FLSig (α : Type) := Bool × List (α × List α)

/-- The mutable state of the construction. -/
structure FLState (α : Type) where
  trans : List (List α × List (α × List α))
  back : List (List α × List (List α))
  finals : List (List α)
  sigs : List (FLSig α × List α)

/-- Equality of `(bool, frozenset(items))` signatures. -/
def sigEq (a b : FLSig α) : Bool :=
  a.1 == b.1 && a.2.all (fun x => decide (x ∈ b.2)) && b.2.all (fun x => decide (x ∈ a.2))

/-- `signatures_dict.get(sig)`. -/
def sigGet (sig : FLSig α) : List (FLSig α × List α) → Option (List α)
  | [] => none
  | (s, v) :: t => if sigEq s sig then some v else sigGet sig t

/-- `longest_common_prefix_length`. -/
def lcpLen : List α → List α → Nat
  | a :: u, b :: v => if a = b then lcpLen u v + 1 else 0
  | _, _ => 0

/-- One symbol of `add_to_trie` on `(state, prefix)`. -/
def flAddSym (st : FLState α × List α) (a : α) : FLState α × List α :=
  let s := st.1
  let pre := st.2
  let next := pre ++ [a]
  let row := asetdefault a next ((alookup pre s.trans).getD [])
  let parents := sinsert pre ((alookup next s.back).getD [])
  ({ s with trans := ainsert pre row s.trans, back := ainsert next parents s.back }, next)

/-- `add_to_trie(word)`. -/
def flAddWord (s : FLState α) (w : List α) : FLState α :=
  let st := w.foldl flAddSym (s, [])
  { st.1 with trans := ainsert st.2 [] st.1.trans, finals := sinsert st.2 st.1.finals }

/-- Redirect the transitions of one parent (`for parent_state in back_map[prefix]` body). -/
def flRedirect (pre ident : List α) (s : FLState α) (parent : List α) : Res (FLState α) :=
  match alookup parent s.trans with
  | none => .error (.py .keyError)
  | some path =>
    let path' := path.map fun e => if e.2 = pre then (e.1, ident) else e
    match alookup ident s.back with
    | none => .error (.py .keyError)
    | some b =>
      .ok { s with trans := ainsert parent path' s.trans, back := ainsert ident (sinsert parent b) s.back }

def flRedirectAll (pre ident : List α) : List (List α) → FLState α → Res (FLState α)
  | [], s => .ok s
  | parent :: rest, s =>
    match flRedirect pre ident s parent with
    | .error e => .error e
    | .ok s' => flRedirectAll pre ident rest s'

/-- Body of the `for i in range(len(word), lcp_len, -1)` loop for `prefix = word[:i]`. -/
def flCompressAt (s : FLState α) (pre : List α) : Res (FLState α) :=
  match alookup pre s.trans with
  | none => .error (.py .keyError)
  | some row =>
    let sig : FLSig α := (decide (pre ∈ s.finals), row)
    match sigGet sig s.sigs with
    | some ident =>
      match alookup pre s.back with
      | none => .error (.py .keyError)
      | some parents =>
        flRedirectAll pre ident parents
          { s with finals := s.finals.filter (fun q => decide (q ≠ pre)),
                   trans := s.trans.filter (fun kv => decide (kv.1 ≠ pre)) }
    | none => .ok { s with sigs := s.sigs ++ [(sig, pre)] }

/-- `compress(word, next_word)`: `k` prefixes `word[:len]`, `word[:len-1]`, … are treated. -/
def flCompressLoop (word : List α) : Nat → Nat → FLState α → Res (FLState α)
  | 0, _, s => .ok s
  | k + 1, i, s =>
    match flCompressAt s (word.take i) with
    | .error e => .error e
    | .ok s' => flCompressLoop word k (i - 1) s'

def flCompress (s : FLState α) (word next : List α) : Res (FLState α) :=
  flCompressLoop word (word.length - lcpLen word next) word.length s

/-- `for curr_word in rest_words: compress(prev, curr); add_to_trie(curr); prev = curr`,
then `compress(prev_word, "")`. -/
def flMain : List (List α) → List α → FLState α → Res (FLState α)
  | [], prev, s => flCompress s prev []
  | cur :: rest, prev, s =>
    match flCompress s prev cur with
    | .error e => .error e
    | .ok s' => flMain rest cur (flAddWord s' cur)

/-- `{**default_to_trap, **lookup}`. -/
def mergeRow {σ : Type} (dflt row : List (α × σ)) : List (α × σ) :=
  row.foldl (fun r e => ainsert e.1 e.2 r) dflt

/-- `DFA._to_complete(input_symbols, transitions, initial_state, final_states, trap_state)`. -/
def toComplete {σ : Type} [DecidableEq σ] (syms : List α) (trans : List (σ × List (α × σ)))
    (init : σ) (finals : List σ) (trap : σ) : Res (DFA σ α) :=
  let dflt := rowOf syms fun _ => trap
  let t := ainsert trap dflt (trans.map fun kv => (kv.1, mergeRow dflt kv.2))
  build { states := akeys t, syms := syms, trans := t, init := init, finals := finals,
          allowPartial := false }

/-- `DFA.from_finite_language(input_symbols, language, as_partial)`; `lt` is the order on
symbols that `sorted` uses (code points). -/
def fromFiniteLanguage (lt : α → α → Bool) (syms : List α) (lang : List (List α))
    (asPartial : Bool := true) : Res (DFA (FLName α) α) :=
  if lang.isEmpty then build (loopDFA FLName.zero syms false) else
  match sortWords lt lang with
  | [] => .error (.py .valueError)   -- `prev_word, *rest_words = []` (unreachable)
  | first :: rest =>
    let s0 : FLState α := { trans := [], back := [([], [])], finals := [], sigs := [] }
    match flMain rest first (flAddWord s0 first) with
    | .error e => .error e
    | .ok s =>
      let trans := s.trans.map fun kv =>
        (FLName.pref kv.1, kv.2.map fun e => (e.1, FLName.pref e.2))
      let finals := s.finals.map FLName.pref
      if asPartial then
        build { states := akeys trans, syms := syms, trans := trans, init := FLName.pref [],
                finals := finals, allowPartial := true }
      else toComplete syms trans (FLName.pref []) finals FLName.zero

end AV.Ctor
