/-
Model/DFAOpsE.lean — failure-tracking refinements of the TOTAL models of Model/DFAOps.lean and
Model/DFAQuery.lean (automata/fa/dfa.py, automata/base/utils.py).

The total models (`minify`, `toPartialMin`, `countWordsOfLength`, `wordsOfLength`, `isEmpty`)
read dictionaries with a default (`d.row q = (alookup q d.trans).getD []`, `Part.get`,
`Part.blockOf` through `filterMap`, `nameOf … |>.getD zero`, `head?` with `[]`).  Here every
Python SUBSCRIPT `d[k]` of the real function is `asub k d` (`KeyError` when `k` is absent) and
`next(iter(s))` is `StopIteration` on an empty `s`; `.get`, membership-guarded reads and
`defaultdict` reads stay total.  Everything else (values, orders, names, fuel) is the total model's,
so that `xE … = .ok (x …)` can be stated (Props/C19g.lean).

Which subscripts of the code are modelled (line numbers of /repo/automata/fa/dfa.py):

`minify`        581  `self.transitions[state]` inside `_bfs_states` (complete DFAs)   → `rowE`
`_minify`       650  `eq_classes.refine(reachable_final_states)`                       → `Part.refineE`
                       utils.py 189 `self._partition[x]`, 192 `self._sets[Aid]`
                661  `eq_classes.get_set_by_id(processing.pop())` = `self._sets[id]`   → `Part.getE`
                664  `origin_dict[end_state] for end_state in active_state`            → `asub e (backMap …)`
                668  `eq_classes.refine(states_that_move_into_active_state)`           → `Part.refineE`
                677/678 `get_set_by_id(YintX_id)`, `get_set_by_id(YdiffX_id)`          → `Part.getE`
                706  `back_map[initial_state]`                                         → `optE (nameOf init)`
                707  `back_map[acc] for acc in reachable_final_states`                 → `mapE`
                715  `next(iter(eq))`                                                  → `StopIteration`
                717  `transitions[eq_class_rep]`                                       → `asub rep trans`
                719–721 `inner_transition_dict_old[letter]` for `letter` in its own keys, and
                     `back_map[…]` guarded by `in back_map.keys()`: structurally safe, total.
`count_words_of_length` 1597 `self.transitions[state]` for every declared state       → `rowE`
                     (`prev_level[…]`, `_count_cache[k][initial_state]`: `defaultdict`, total)
`words_of_length` 1641 `sorted_transition_symbols[state]`, 1642 `self.transitions[state][symbol]`
`isempty`       1236 `self.transitions[state]` inside `_bfs_states`.

NOT modelled as failing (see the header of Props/C19g.lean): the construction of
`transition_back_map` (lines 615–646: every subscript there uses a key that the same function
has just stored — `transition_back_map[symbol]` for `symbol in input_symbols`,
`[trap_state]` after the assignment loop — and `symbol_dict[end_state]` is guarded by
`end_state in symbol_dict`); its result is `backMap` (keys = the refinement universe).  The
networkx calls of the partial pre-pass (`_get_digraph`, `get_reachable_nodes`).
-/
import AutomataVerif.Model.DFAOps
import AutomataVerif.Model.DFAQuery

namespace AV

/-! ### failing reads -/

/-- `Some`-or-`KeyError`. -/
def optE {β : Type} : Option β → Res β
  | some v => .ok v
  | none => .error (.py .keyError)

/-- The subscript `d[k]`: `KeyError` when `k` is not a key. -/
def asub {κ β : Type} [DecidableEq κ] (k : κ) (d : List (κ × β)) : Res β := optE (alookup k d)

/-- Sequencing: the first failure wins. -/
def bindE {β γ : Type} (r : Res β) (f : β → Res γ) : Res γ :=
  match r with
  | .error e => .error e
  | .ok v => f v

/-- `[f(x) for x in l]` where `f` may raise: the first failure wins. -/
def mapE {β γ : Type} (f : β → Res γ) : List β → Res (List γ)
  | [] => .ok []
  | x :: t =>
    match f x with
    | .error e => .error e
    | .ok y =>
      match mapE f t with
      | .error e => .error e
      | .ok ys => .ok (y :: ys)

/-- `for x in l: acc = f(acc, x)` where `f` may raise. -/
def foldlE {β γ : Type} (f : γ → β → Res γ) : γ → List β → Res γ
  | acc, [] => .ok acc
  | acc, x :: t =>
    match f acc x with
    | .error e => .error e
    | .ok acc' => foldlE f acc' t

/-- `bfsAux` with a successor function that may raise (`expand_state_fn` doing a subscript). -/
def bfsAuxE {σ : Type} [DecidableEq σ] (succE : σ → Res (List σ)) :
    Nat → List σ → List σ → Res (List σ)
  | 0, _, vis => .ok vis
  | _ + 1, [], vis => .ok vis
  | fuel + 1, q :: work, vis =>
      match succE q with
      | .error e => .error e
      | .ok ss =>
        let new := dedup (ss.filter (fun t => decide (t ∉ vis)))
        bfsAuxE succE fuel (work ++ new) (vis ++ new)

namespace DFA
variable {σ α : Type} [DecidableEq σ] [DecidableEq α]

/-- `self.transitions[state]`. -/
def rowE (d : DFA σ α) (q : σ) : Res (List (α × σ)) := asub q d.trans

/-- `lambda state: iter(self.transitions[state].items())`, targets only. -/
def rowSuccE (d : DFA σ α) (q : σ) : Res (List σ) :=
  match d.rowE q with
  | .error e => .error e
  | .ok r => .ok (avals r)

/-! ### `isempty` -/

/-- `isempty()`, eagerly: the whole `_bfs_states` run, then `any(final)`.  (The code stops the
generator at the first final state; every subscript it performs is performed here too, so
"no failure here" implies "no failure there".) -/
def isEmptyE (d : DFA σ α) : Res Bool :=
  match bfsAuxE d.rowSuccE ((d.init :: d.gnodes).length + 1) (dedup [d.init]) (dedup [d.init]) with
  | .error e => .error e
  | .ok vis => .ok (!(vis.any fun q => decide (q ∈ d.finals)))

/-! ### `count_words_of_length` -/

/-- One level of `_populate_count_cache_up_to_len` with `self.transitions[state]` a subscript. -/
def countNextE (d : DFA σ α) (prev : List (σ × Nat)) : Res (List (σ × Nat)) :=
  mapE (fun q =>
    match d.rowE q with
    | .error e => .error e
    | .ok r => .ok (q, ((avals r).map (cget prev)).sum)) d.states

def countLevelE (d : DFA σ α) : Nat → Res (List (σ × Nat))
  | 0 => .ok d.countLevel0
  | k + 1 =>
    match countLevelE d k with
    | .error e => .error e
    | .ok prev => d.countNextE prev

/-- `count_words_of_length(k)` on a fresh object. -/
def countWordsOfLengthE (d : DFA σ α) (k : Nat) : Res Nat :=
  match d.countLevelE k with
  | .error e => .error e
  | .ok lvl => .ok (cget lvl d.init)

/-! ### `words_of_length` -/

/-- `sorted_transition_symbols = {state: sorted(lookup.keys()) for state, lookup in
self.transitions.items()}`. -/
def sortedTable (d : DFA σ α) (key : α → Int) : List (σ × List α) :=
  d.trans.map fun kv => (kv.1, sortedKeys key kv.2)

/-- One level of `_populate_word_cache_up_to_len`: `sorted_transition_symbols[state]`,
`self.transitions[state]` and `…[symbol]` are subscripts, `prev_level[…]` is a `defaultdict`. -/
def wordNextE (d : DFA σ α) (key : α → Int) (prev : List (σ × List (List α))) :
    Res (List (σ × List (List α))) :=
  mapE (fun q =>
    match asub q (d.sortedTable key) with
    | .error e => .error e
    | .ok ks =>
      match mapE (fun a =>
          match d.rowE q with
          | .error e => .error e
          | .ok r =>
            match asub a r with
            | .error e => .error e
            | .ok t => .ok ((wget prev t).map (a :: ·))) ks with
      | .error e => .error e
      | .ok ls => .ok (q, ls.flatten)) d.states

def wordLevelE (d : DFA σ α) (key : α → Int) : Nat → Res (List (σ × List (List α)))
  | 0 => .ok d.wordLevel0
  | k + 1 =>
    match wordLevelE d key k with
    | .error e => .error e
    | .ok prev => d.wordNextE key prev

/-- `list(words_of_length(k))` on a fresh object. -/
def wordsOfLengthE (d : DFA σ α) (key : α → Int) (k : Nat) : Res (List (List α)) :=
  match d.wordLevelE key k with
  | .error e => .error e
  | .ok lvl => .ok (wget lvl d.init)

/-! ### `PartitionRefinement` with failing reads -/

namespace Part
variable {τ : Type} [DecidableEq τ]

/-- `self._partition[x]`. -/
def blockOfE (p : Part τ) (x : τ) : Res Nat := optE (p.blockOf x)

/-- `get_set_by_id(i)` = `self._sets[i]`. -/
def getE (p : Part τ) (i : Nat) : Res (List τ) := asub i p.blocks

/-- The body of `for Aid, AintS in hit.items()` with `A = self._sets[Aid]` a subscript. -/
def refStepE (S : List τ) (acc : Part τ × List (Nat × Nat)) (aid : Nat) :
    Res (Part τ × List (Nat × Nat)) :=
  match acc.1.getE aid with
  | .error e => .error e
  | .ok A =>
    let inter := A.filter fun x => decide (x ∈ S)
    if inter.length < A.length then
      let nid := acc.1.next
      .ok ({ blocks := (acc.1.blocks.map fun b =>
                      if b.1 = aid then (aid, A.filter fun x => decide (x ∉ S)) else b) ++ [(nid, inter)],
             next := nid + 1 },
           acc.2 ++ [(nid, aid)])
    else .ok acc

/-- `refine(S)`: `hit[self._partition[x]].add(x)` for every `x` of `S`, then the loop over `hit`. -/
def refineE (p : Part τ) (S : List τ) : Res (Part τ × List (Nat × Nat)) :=
  match mapE p.blockOfE S with
  | .error e => .error e
  | .ok ids => foldlE (refStepE S) (p, []) (dedup ids)

end Part

/-! ### `_minify` -/

/-- `transition_back_map[a]` when the first loop of `_minify` is over: for every element `e` of
the refinement universe (kept states, and the trap iff it was created) the list of the elements
that move into `e` under `a`. -/
def backMap (U : List (Option σ)) (delta : Option σ → α → Option σ) (a : α) :
    List (Option σ × List (Option σ)) :=
  U.map fun e => (e, U.filter fun s => decide (delta s a = e))

/-- The body of `for YintX_id, YdiffX_id in new_eq_class_pairs`. -/
def wStepE (r : Part (Option σ)) (W : List Nat) (pr : Nat × Nat) : Res (List Nat) :=
  if pr.2 ∈ W then .ok (sinsert pr.1 W)
  else
    match r.getE pr.1 with
    | .error e => .error e
    | .ok A =>
      match r.getE pr.2 with
      | .error e => .error e
      | .ok B => if A.length ≤ B.length then .ok (sinsert pr.1 W) else .ok (sinsert pr.2 W)

/-- One `origin_dict` of the inner loop: `origin_dict[end_state]` for every `end_state` of the
active block (subscripts), `refine` of their union, update of `processing`.  The union is put in
universe order (sets are lists; the total model's `X`). -/
def hopSymbolE (U : List (Option σ)) (delta : Option σ → α → Option σ) (active : List (Option σ))
    (acc : Part (Option σ) × List Nat) (a : α) : Res (Part (Option σ) × List Nat) :=
  match mapE (fun e => asub e (backMap U delta a)) active with
  | .error e => .error e
  | .ok origins =>
    let X := U.filter fun s => decide (s ∈ origins.flatten)
    match acc.1.refineE X with
    | .error e => .error e
    | .ok r =>
      match foldlE (wStepE r.1) acc.2 r.2 with
      | .error e => .error e
      | .ok W => .ok (r.1, W)

/-- The `while processing:` loop. -/
def hopLoopE (U : List (Option σ)) (delta : Option σ → α → Option σ) (syms : List α)
    (pick : List Nat → Nat) : Nat → Part (Option σ) → List Nat → Res (Part (Option σ))
  | 0, p, _ => .ok p
  | _ + 1, p, [] => .ok p
  | fuel + 1, p, w :: ws =>
    let W := w :: ws
    let i := pick W % W.length
    let id := W.getD i w
    let W' := W.eraseIdx i
    match p.getE id with
    | .error e => .error e
    | .ok active =>
      match foldlE (hopSymbolE U delta active) (p, W') syms with
      | .error e => .error e
      | .ok r => hopLoopE U delta syms pick fuel r.1 r.2

/-- The partition computed by `_minify`. -/
def hopcroftE (kept : List σ) (syms : List α) (trans : List (σ × List (α × σ)))
    (finals : List σ) (pick : List Nat → Nat) : Res (Part (Option σ)) :=
  let U := muniverse kept syms trans
  let p0 := Part.init U
  match p0.refineE (finals.map some) with
  | .error e => .error e
  | .ok r =>
    let fid := match r.2 with
      | pr :: _ => pr.1
      | [] => 0
    hopLoopE U (mdelta kept trans) syms pick (2 * U.length + 2) r.1 [fid]

/-- The dict comprehension of `new_transitions[name]`: entries whose target has no name
(`… in back_map.keys()` fails) are dropped. -/
def renameRow (nameOf : σ → Option (MinName σ)) (row : List (α × σ)) : List (α × MinName σ) :=
  row.filterMap fun e =>
    match nameOf e.2 with
    | some nm => some (e.1, nm)
    | none => none

/-- One iteration of `for name, eq in eq_class_name_pairs` for a class without the trap:
`next(iter(eq))` (`StopIteration` on an empty class), `transitions[eq_class_rep]`. -/
def blockRowE (nameOf : σ → Option (MinName σ)) (trans : List (σ × List (α × σ)))
    (b : Nat × List (Option σ)) : Res (MinName σ × List (α × MinName σ)) :=
  match (blockStates b.2).head? with
  | none => .error (.py .stopIteration)
  | some r => bindE (asub r trans) fun row => .ok (MinName.blk (blockStates b.2), renameRow nameOf row)

/-- The part of `_minify` after the loop, in the order of the code: `good` = the classes without
the trap, `nameOf` = `back_map` (as `.get`); `back_map[initial_state]`, `back_map[acc]` for every
final state, then the rows. -/
def assembleWithE (good : List (Nat × List (Option σ))) (nameOf : σ → Option (MinName σ))
    (syms : List α) (trans : List (σ × List (α × σ))) (init : σ) (finals : List σ) :
    Res (DFA (MinName σ) α) :=
  if good.isEmpty then
    .ok { states := [MinName.zero], syms := syms,
          trans := [(MinName.zero, syms.map fun a => (a, MinName.zero))],
          init := MinName.zero, finals := [], allowPartial := false }
  else
    bindE (optE (nameOf init)) fun newInit =>
    bindE (mapE (fun f => optE (nameOf f)) finals) fun newFinals =>
    bindE (mapE (blockRowE nameOf trans) good) fun newTrans =>
      .ok { states := good.map fun b => MinName.blk (blockStates b.2), syms := syms,
            trans := newTrans, init := newInit, finals := dedup newFinals,
            allowPartial := newTrans.any fun kv => kv.2.length != syms.length }

/-- The part of `_minify` after the loop (`back_map`, `new_initial_state`, `new_final_states`,
`new_transitions`). -/
def assembleE (p : Part (Option σ)) (syms : List α) (trans : List (σ × List (α × σ))) (init : σ)
    (finals : List σ) : Res (DFA (MinName σ) α) :=
  let good := p.blocks.filter fun b => !(b.2.contains none)
  assembleWithE good
    (fun q => (good.find? fun b => b.2.contains (some q)).map fun b => MinName.blk (blockStates b.2))
    syms trans init finals

/-- `_minify(reachable_states, input_symbols, transitions, initial_state,
reachable_final_states, retain_names=True)`. -/
def minifyCoreE (kept : List σ) (syms : List α) (trans : List (σ × List (α × σ))) (init : σ)
    (finals : List σ) (pick : List Nat → Nat) : Res (DFA (MinName σ) α) :=
  match hopcroftE kept syms trans finals pick with
  | .error e => .error e
  | .ok p => assembleE p syms trans init finals

/-- The pre-pass of `minify`: `_bfs_states` over `self.transitions[state]` for a complete DFA. -/
def minifyKeptE (d : DFA σ α) : Res (List σ) :=
  if d.allowPartial then
    .ok (sinsert d.init (d.accessible.filter fun q => decide (q ∈ d.coaccessible)))
  else
    bfsAuxE d.rowSuccE (d.graphNodes.length + 1) (dedup [d.init]) (dedup [d.init])

/-- `minify(retain_names=True)`. -/
def minifyE (d : DFA σ α) (pick : List Nat → Nat := fun _ => 0) : Res (DFA (MinName σ) α) :=
  match d.minifyKeptE with
  | .error e => .error e
  | .ok kept =>
    minifyCoreE kept d.syms d.trans d.init (d.finals.filter fun q => decide (q ∈ kept)) pick

/-- `to_partial(retain_names=True, minify=True)`. -/
def toPartialMinE (d : DFA σ α) (pick : List Nat → Nat := fun _ => 0) : Res (DFA (MinName σ) α) :=
  let kept := sinsert d.init (d.accessible.filter fun q => decide (q ∈ d.coaccessible))
  minifyCoreE kept d.syms d.trans d.init (d.finals.filter fun q => decide (q ∈ kept)) pick

/-- `complement(retain_names=True, minify=True)` of an already complete DFA (line 942:
`complete_dfa.transitions[state]` inside `_bfs_states`, then `_minify`). -/
def complementMinE (c : DFA σ α) (pick : List Nat → Nat := fun _ => 0) : Res (DFA (MinName σ) α) :=
  match bfsAuxE c.rowSuccE (c.graphNodes.length + 1) (dedup [c.init]) (dedup [c.init]) with
  | .error e => .error e
  | .ok kept =>
    minifyCoreE kept c.syms c.trans c.init (kept.filter fun q => decide (q ∉ c.finals)) pick

end DFA
end AV
