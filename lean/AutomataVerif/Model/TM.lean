/-
Model/TM.lean — automata/tm/{dtm,ntm,mntm}.py: the three `read_input_stepwise` generators.

Every generator is modelled by its `resume` function (what one `next()` does to the
suspended generator) and observed through `genStart … n` = the first `n` calls of `next()`
(`Model/TMDefs.lean`).  Nothing here assumes halting.

* DTM : `_get_transition`, `_has_accepted`, `_get_next_configuration`, the `while` loop.
* NTM : `_get_transitions`, `_get_next_configurations` (a *set* of configurations: list
        without repeats), the level loop (`return` as soon as one configuration of the
        current level is accepting, `RejectionException` when the level is empty).
* MNTM: `_get_tapes_for_input_str`, `_read_current_tape_symbols`, `_get_transition`,
        `_get_next_configuration` (`zip(moves, tapes)`), the queue loop: yield the popped
        configuration; `if not possible_transitions` (missing row, missing key **or empty
        list**, fix 5a3675d) the run returns when the state is final and otherwise goes on
        with the queue; else the successors for `transitions[1:]` are appended, then the
        successor for `transitions[0]`.
Lean core only.
-/
import AutomataVerif.Model.TMDefs

namespace AV.TM
variable {σ Γ : Type} [DecidableEq σ] [DecidableEq Γ]

/-! ## DTM -/
namespace DTM

/-- `_get_transition(state, tape_symbol)`. -/
def getTransition (M : DTM σ Γ) (q : σ) (s : Γ) : Option (σ × Γ × Dir) :=
  match alookup q M.trans with
  | none => none
  | some row => alookup s row

/-- `_has_accepted`. -/
def hasAccepted (M : DTM σ Γ) (c : Cfg σ Γ) : Bool := decide (c.state ∈ M.finals)

/-- The configuration after applying a transition tuple:
`tape.write_symbol(s').move(d)`. -/
def apply (c : Cfg σ Γ) (r : σ × Γ × Dir) : Cfg σ Γ :=
  { state := r.1, tape := (c.tape.write r.2.1).move r.2.2 }

/-- `_get_next_configuration`: `RejectionException` when no transition is defined. -/
def next (M : DTM σ Γ) (c : Cfg σ Γ) : Res (Cfg σ Γ) :=
  match M.getTransition c.state c.tape.read with
  | none => .error (.lib .rejectionException)
  | some r => .ok (apply c r)

/-- `TMConfiguration(initial_state, TMTape(input_str, blank_symbol=blank))`. -/
def initCfg (M : DTM σ Γ) (w : List Γ) : Cfg σ Γ :=
  { state := M.init, tape := Tape.init w M.blank }

/-- One `next()` on the generator suspended at `yield current_configuration`. -/
def resume (M : DTM σ Γ) (c : Cfg σ Γ) : Resume (Cfg σ Γ) (Cfg σ Γ) :=
  if M.hasAccepted c then .ret else
  match M.next c with
  | .error e => .raise e
  | .ok c' => .yield c' c'

/-- `read_input_stepwise(w)` observed through `n` calls of `next()`. -/
def readStepwise (M : DTM σ Γ) (w : List Γ) (n : Nat) : List (Cfg σ Γ) × GenEnd :=
  genStart M.resume (M.initCfg w) (M.initCfg w) n

/-- `accepts_input(w)` within `n` calls of `next()`. -/
def verdict (M : DTM σ Γ) (w : List Γ) (n : Nat) : Res Verdict :=
  verdictOf (M.readStepwise w n).2

end DTM

/-! ## NTM -/
namespace NTM

/-- `_get_transitions(state, tape_symbol)` (`set()` when undefined). -/
def getTransitions (M : NTM σ Γ) (q : σ) (s : Γ) : List (σ × Γ × Dir) :=
  match alookup q M.trans with
  | none => []
  | some row => (alookup s row).getD []

def hasAccepted (M : NTM σ Γ) (c : Cfg σ Γ) : Bool := decide (c.state ∈ M.finals)

/-- `_get_next_configurations`: the set of successor configurations. -/
def nextCfgs (M : NTM σ Γ) (c : Cfg σ Γ) : List (Cfg σ Γ) :=
  dedup ((M.getTransitions c.state c.tape.read).map (DTM.apply c))

def initCfg (M : NTM σ Γ) (w : List Γ) : Cfg σ Γ :=
  { state := M.init, tape := Tape.init w M.blank }

/-- `new_configurations = set(); for config in current: new_configurations.update(next(config))`. -/
def nextLevel (M : NTM σ Γ) (cur : List (Cfg σ Γ)) : List (Cfg σ Γ) :=
  cur.foldl (fun acc c => sunion acc (M.nextCfgs c)) []

/-- One `next()` on the generator suspended at `yield current_configurations`. -/
def resume (M : NTM σ Γ) (cur : List (Cfg σ Γ)) : Resume (List (Cfg σ Γ)) (List (Cfg σ Γ)) :=
  match cur with
  | [] => .raise (.lib .rejectionException)
  | _ :: _ =>
    if cur.any M.hasAccepted then .ret
    else .yield (M.nextLevel cur) (M.nextLevel cur)

/-- `read_input_stepwise(w)` observed through `n` calls of `next()`; a yielded value is a
set of configurations (a list without repeats, order immaterial). -/
def readStepwise (M : NTM σ Γ) (w : List Γ) (n : Nat) : List (List (Cfg σ Γ)) × GenEnd :=
  genStart M.resume [M.initCfg w] [M.initCfg w] n

def verdict (M : NTM σ Γ) (w : List Γ) (n : Nat) : Res Verdict :=
  verdictOf (M.readStepwise w n).2

end NTM

/-! ## MNTM -/
namespace MNTM

/-- `_get_tapes_for_input_str`: the input on the first tape, a blank on each other one. -/
def initTapes (M : MNTM σ Γ) (w : List Γ) : List (Tape Γ) :=
  Tape.init w M.blank :: (List.replicate (M.nTapes - 1) (Tape.init [M.blank] M.blank 0))

def initCfg (M : MNTM σ Γ) (w : List Γ) : MCfg σ Γ :=
  { state := M.init, tapes := M.initTapes w }

/-- `_read_current_tape_symbols`. -/
def readHeads (tapes : List (Tape Γ)) : List Γ := tapes.map Tape.read

/-- `_get_transition(state, tapes)` (`None` when the row or the key is missing). -/
def getTransition (M : MNTM σ Γ) (q : σ) (tapes : List (Tape Γ)) :
    Option (List (σ × List (Γ × Dir))) :=
  match alookup q M.trans with
  | none => none
  | some row => alookup (readHeads tapes) row

/-- `_get_next_configuration(transition, tapes)`:
`tuple(tape.write_symbol(s).move(d) for (s, d), tape in zip(moves, tapes))`. -/
def apply (tapes : List (Tape Γ)) (t : σ × List (Γ × Dir)) : MCfg σ Γ :=
  { state := t.1,
    tapes := List.zipWith (fun (m : Γ × Dir) (tp : Tape Γ) => (tp.write m.1).move m.2) t.2 tapes }

/-- The configurations appended to the queue while processing `c`, in the order of the
appends (`possible_transitions[1:]` first, `possible_transitions[0]` last); `none` when
no transition applies (`if not possible_transitions`). -/
def children (M : MNTM σ Γ) (c : MCfg σ Γ) : Option (List (MCfg σ Γ)) :=
  match M.getTransition c.state c.tapes with
  | none => none
  | some [] => none
  | some (t0 :: ts) => some (ts.map (apply c.tapes) ++ [apply c.tapes t0])

/-- State of the suspended generator: the configuration just yielded and the queue. -/
abbrev QState (σ Γ : Type) := MCfg σ Γ × List (MCfg σ Γ)

/-- One `next()` on the generator suspended at the `yield` of `st.1` with queue `st.2`. -/
def resume (M : MNTM σ Γ) (st : QState σ Γ) : Resume (QState σ Γ) (MCfg σ Γ) :=
  let c := st.1
  let continueWith (queue : List (MCfg σ Γ)) : Resume (QState σ Γ) (MCfg σ Γ) :=
    match queue with
    | [] => .raise (.lib .rejectionException)
    | c' :: rest => .yield c' (c', rest)
  match M.children c with
  | none => if decide (c.state ∈ M.finals) then .ret else continueWith st.2
  | some kids => continueWith (st.2 ++ kids)

/-- `read_input_stepwise(w)` observed through `n` calls of `next()` (each yielded value is
the singleton set of the returned configuration). -/
def readStepwise (M : MNTM σ Γ) (w : List Γ) (n : Nat) : List (MCfg σ Γ) × GenEnd :=
  genStart M.resume (M.initCfg w) (M.initCfg w, []) n

def verdict (M : MNTM σ Γ) (w : List Γ) (n : Nat) : Res Verdict :=
  verdictOf (M.readStepwise w n).2

end MNTM

/-! ## the same table as an NTM / as a one-tape MNTM -/

/-- A DTM table given as an NTM: every result becomes a singleton set. -/
def DTM.asNTM (M : DTM σ Γ) : NTM σ Γ :=
  { states := M.states, inputSyms := M.inputSyms, tapeSyms := M.tapeSyms,
    trans := M.trans.map fun kv => (kv.1, kv.2.map fun e => (e.1, [e.2])),
    init := M.init, blank := M.blank, finals := M.finals }

/-- A DTM table given as a one-tape MNTM: keys become 1-tuples, results one-element lists. -/
def DTM.asMNTM (M : DTM σ Γ) : MNTM σ Γ :=
  { states := M.states, inputSyms := M.inputSyms, tapeSyms := M.tapeSyms, nTapes := 1,
    trans := M.trans.map fun kv =>
      (kv.1, kv.2.map fun e => ([e.1], [(e.2.1, [(e.2.2.1, e.2.2.2)])])),
    init := M.init, blank := M.blank, finals := M.finals }

end AV.TM
