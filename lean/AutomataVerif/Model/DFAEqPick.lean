/-
Model/DFAEqPick.lean — `DFA.__eq__` once more, this time through the generic
Hopcroft–Karp loop `AV.HKG.run` of Model/HK.lean whose union–find is parametrised by
the choice `pick` of the surviving representative (networkx's `UnionFind.union` links
the lighter class below the heavier one and breaks ties by set-iteration order:
`HKG.nxPick`).  `DFA.eqv` (Model/DFACompare.lean) is the same loop with one fixed
linking direction; `Props/C06.lean` proves that the answer is the same for every `pick`.
Lean core only.
-/
import AutomataVerif.Model.HK
import AutomataVerif.Model.DFACompare

namespace AV
namespace DFA
variable {σ α : Type} [DecidableEq σ] [DecidableEq α]

/-- `transition(state_pair, symbol)` of `__eq__`. -/
def hkStep (A B : DFA σ α) : EqState σ → α → EqState σ := fun s a =>
  (if s.2 then B.step? s.1 a else A.step? s.1 a, s.2)

/-- `is_final_state(state_pair)` of `__eq__`. -/
def hkFin (A B : DFA σ α) : EqState σ → Bool := fun s =>
  if s.2 then B.isFinal s.1 else A.isFinal s.1

/-- Result of `A.__eq__(B)`: `NotImplemented`, a Boolean, or (model only) out of fuel. -/
inductive EqRes
  | notImplemented
  | outOfFuel
  | val (b : Bool)
  deriving DecidableEq, Repr

/-- Fuel handed to the loop: the number of elements the union–find can ever hold
(`(q, i)` for the graph nodes of both operands and `(None, i)`), plus 2. -/
def eqFuel (A B : DFA σ α) : Nat := A.graphNodes.length + B.graphNodes.length + 4

/-- `A.__eq__(B)` with the union–find's representative choice `pick`. -/
def eqvPick (pick : HKG.UF (EqState σ) → EqState σ → EqState σ → Bool) (A B : DFA σ α) : EqRes :=
  if !A.symsEq B then .notImplemented
  else
    match HKG.run (A.hkStep B) (A.hkFin B) A.syms pick (A.eqFuel B)
        (some A.init, false) (some B.init, true) with
    | some b => .val b
    | none => .outOfFuel

/-- networkx's policy (heavier class wins; `tie r₁ r₂ = true`: `r₁` survives a tie). -/
def eqvNx (tie : EqState σ → EqState σ → Bool) (A B : DFA σ α) : EqRes :=
  eqvPick (HKG.nxPick tie) A B

end DFA
end AV
