/-
Model/DFACompare.lean — automata/fa/dfa.py: `__eq__` (Hopcroft–Karp with union–find),
`__ne__`, `<= < >= >`, issubset / issuperset / isdisjoint (`_find_state` over the lazy
product), isempty, isfinite (via maximum_word_length on the trimmed digraph).
-/
import AutomataVerif.Model.DFAOps

namespace AV

/-! ### union–find and the Hopcroft–Karp loop, generic in the deterministic system -/

section HK
variable {X α : Type} [DecidableEq X]

/-- `state_sets[x]`: follow parent links (`uf` maps a merged root to its new root). -/
def ufFind (uf : List (X × X)) : Nat → X → X
  | 0, x => x
  | f + 1, x =>
    match alookup x uf with
    | none => x
    | some p => if p = x then x else ufFind uf f p

/-- One symbol of the inner `for symbol in input_symbols` loop. -/
def hkSymbol (step : X → α → X) (qa qb : X) (acc : List (X × X) × List (X × X)) (a : α) :
    List (X × X) × List (X × X) :=
  let r1 := ufFind acc.1 (acc.1.length + 1) (step qa a)
  let r2 := ufFind acc.1 (acc.1.length + 1) (step qb a)
  if r1 = r2 then acc else ((r2, r1) :: acc.1, (r1, r2) :: acc.2)

/-- The `while pair_stack:` loop of `__eq__` (LIFO stack; representatives are pushed). -/
def hkLoop (step : X → α → X) (fin : X → Bool) (syms : List α) :
    Nat → List (X × X) → List (X × X) → Bool
  | 0, _, _ => true
  | _ + 1, _, [] => true
  | f + 1, uf, (qa, qb) :: stack =>
    if fin qa != fin qb then false
    else
      let r := syms.foldl (hkSymbol step qa qb) (uf, stack)
      hkLoop step fin syms f r.1 r.2

end HK

namespace DFA
variable {σ α : Type} [DecidableEq σ] [DecidableEq α]

/-- Elements of the union–find in `__eq__`: `(state | None, operand index)`. -/
abbrev EqState (σ : Type) := Option σ × Bool

/-- `A == B` for DFAs: `none` = `NotImplemented` (different alphabets). -/
def eqv (A B : DFA σ α) : Option Bool :=
  if !A.symsEq B then none
  else
    let step : EqState σ → α → EqState σ := fun s a =>
      (if s.2 then B.step? s.1 a else A.step? s.1 a, s.2)
    let fin : EqState σ → Bool := fun s => if s.2 then B.isFinal s.1 else A.isFinal s.1
    let ia : EqState σ := (some A.init, false)
    let ib : EqState σ := (some B.init, true)
    some (hkLoop step fin A.syms (A.graphNodes.length + B.graphNodes.length + 4)
      [(ib, ia)] [(ia, ib)])

/-- `_find_state(target, initial, expand)`: is a target state reachable? -/
def findState {S : Type} [DecidableEq S] (succ : S → List (α × S)) (target : S → Bool)
    (fuel : Nat) (init : S) : Bool :=
  (bfsStates succ fuel init).any target

/-- `issubset`. -/
def issubset (A B : DFA σ α) : Res Bool :=
  if !A.symsEq B then .error (.lib .symbolMismatchError)
  else .ok (!(findState (A.crossSucc B false true)
    (fun s => A.isFinalO s.1 && !B.isFinalO s.2) (A.prodFuel B) (some A.init, some B.init)))

/-- `isdisjoint`. -/
def isdisjoint (A B : DFA σ α) : Res Bool :=
  if !A.symsEq B then .error (.lib .symbolMismatchError)
  else .ok (!(findState (A.crossSucc B false false)
    (fun s => A.isFinalO s.1 && B.isFinalO s.2) (A.prodFuel B) (some A.init, some B.init)))

/-- `isempty`. -/
def isempty (d : DFA σ α) : Bool :=
  !(findState (fun q => d.row q) (fun q => decide (q ∈ d.finals)) (d.graphNodes.length + 1) d.init)

/-- Nodes of the trimmed graph: accessible ∩ coaccessible. -/
def importantNodes (d : DFA σ α) : List σ := d.accessible.filter fun q => decide (q ∈ d.coaccessible)

/-- Nodes of `V` with a walk of length ≥ k inside `V` (`walkLevel 0 = V`). -/
def walkLevel (succ : σ → List σ) (V : List σ) : Nat → List σ
  | 0 => V
  | k + 1 => V.filter fun q => (succ q).any fun t => decide (t ∈ walkLevel succ V k)

/-- Contract of `nx.dag_longest_path_length(subgraph)`: the number of edges of a
longest path, or `none` (NetworkXUnfeasible) when the subgraph has a cycle, i.e. a
walk with |V| edges. -/
def longestPath (succ : σ → List σ) (V : List σ) : Option Nat :=
  if !(walkLevel succ V V.length).isEmpty then none
  else some ((List.range V.length).foldl
    (fun best k => if !(walkLevel succ V k).isEmpty then k else best) 0)

/-- `maximum_word_length`. -/
def maxWordLength (d : DFA σ α) : Res (Option Nat) :=
  if d.isempty then .error (.lib .emptyLanguageException)
  else
    let V := d.importantNodes
    .ok (longestPath (fun q => (d.succStates q).filter fun t => decide (t ∈ V)) V)

/-- `isfinite`. -/
def isfinite (d : DFA σ α) : Bool :=
  match d.maxWordLength with
  | .ok r => r.isSome
  | .error _ => true

/-- The nine comparison results of two DFAs over one alphabet
(`==, !=, <=, <, >=, >, issubset, issuperset, isdisjoint`). -/
structure Cmp where
  eq : Bool
  ne : Bool
  le : Bool
  lt : Bool
  ge : Bool
  gt : Bool
  sub : Bool
  sup : Bool
  disj : Bool
  deriving Repr, DecidableEq

def compareAll (A B : DFA σ α) : Res Cmp :=
  match A.eqv B, A.issubset B, B.issubset A, A.isdisjoint B with
  | some e, .ok le, .ok ge, .ok dj =>
    .ok { eq := e, ne := !e, le := le, lt := le && !e, ge := ge, gt := ge && !e,
          sub := le, sup := ge, disj := dj }
  | _, _, _, _ => .error (.lib .symbolMismatchError)

end DFA
end AV
