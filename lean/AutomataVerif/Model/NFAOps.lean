/-
Model/NFAOps.lean — automata/fa/nfa.py regular operations, function by function
(Lean core only):

  _get_state_maps, _load_new_transition_dict, union, concatenate, kleene_star, option,
  reverse, intersection, shuffle_product, right_quotient, left_quotient,
  __or__ / __add__ / __and__, and automata/fa/fa.py `_add_new_state`.

Result state names are the ones the code produces: union / concatenate rename to
`0,1,2,…` (index in the iteration order of the operand's state set); kleene_star /
option / reverse add the first natural number that is not a state (`nat : ℕ → σ` is the
embedding of Python's ints into the state-name type); intersection / shuffle use pairs,
the quotients use triples with a Boolean.  Every operation ends in the constructor
(`create`), which validates.  `isinstance(other, NFA)` tests are static typing here.
-/
import AutomataVerif.Model.NFAElim

namespace AV
namespace NFA
variable {σ σ₁ σ₂ α : Type} [DecidableEq σ] [DecidableEq σ₁] [DecidableEq σ₂] [DecidableEq α]

/-! ### fresh state, state maps -/

/-- `while new_state in state_set: new_state += 1`, started at `k`, at most `fuel` increments. -/
def firstFree (nat : Nat → σ) (states : List σ) : Nat → Nat → Nat
  | 0, k => k
  | fuel + 1, k => if nat k ∈ states then firstFree nat states fuel (k + 1) else k

/-- `FA._add_new_state(state_set)` (start = 0): the first natural number that is not a
state.  `states.length` increments always suffice (pigeonhole). -/
def addNewState (nat : Nat → σ) (states : List σ) : σ :=
  nat (firstFree nat states states.length 0)

/-- `dict(zip(state_set, counter))` with the counter at `start`. -/
def stateMap (l : List σ) (start : Nat) : List (σ × Nat) := l.zip (List.range' start l.length)

/-- `_get_state_maps(state_set_a, state_set_b, start=start)`: the second map continues
where the first stopped. -/
def getStateMaps (a : List σ₁) (b : List σ₂) (start : Nat := 0) :
    List (σ₁ × Nat) × List (σ₂ × Nat) :=
  (stateMap a start, stateMap b (start + a.length))

/-- `_load_new_transition_dict(state_map_dict, old_transition_dict, new_transition_dict)`.
Rows keyed by names that are not in the state map are skipped; otherwise
`new[map[a]][symbol] = {map[b] for b in states}` (right-hand side first). -/
def loadNewTransitionDict (m : List (σ × Nat)) (old : Tbl σ α) (new : Tbl Nat α) : Res (Tbl Nat α) :=
  old.foldlM (init := new) fun new kv =>
    match alookup kv.1 m with
    | none => pure new
    | some ka =>
      kv.2.foldlM (init := new) fun new e => do
        let tgt ← e.2.mapM fun b => lookupE b m
        let row ← lookupE ka new
        pure (ainsert ka (ainsert e.1 (dedup tgt) row) new)

/-! ### union, concatenate -/

def union (A : NFA σ₁ α) (B : NFA σ₂ α) : Res (NFA Nat α) := do
  let (ma, mb) := getStateMaps A.states B.states 1
  let newStates := dedup (avals ma ++ avals mb ++ [0])
  let t0 : Tbl Nat α := newStates.map fun s => (s, [])
  let ia ← lookupE A.init ma
  let ib ← lookupE B.init mb
  let t1 := ainsert 0 [(none, dedup [ia, ib])] t0
  let t2 ← loadNewTransitionDict ma A.trans t1
  let t3 ← loadNewTransitionDict mb B.trans t2
  let fa ← A.finals.mapM fun q => lookupE q ma
  let fb ← B.finals.mapM fun q => lookupE q mb
  create { states := newStates, syms := sunion A.syms B.syms, trans := t3, init := 0,
           finals := dedup (fa ++ fb) }

def concatenate (A : NFA σ₁ α) (B : NFA σ₂ α) : Res (NFA Nat α) := do
  let (ma, mb) := getStateMaps A.states B.states
  let newStates := dedup (avals ma ++ avals mb)
  let t0 : Tbl Nat α := newStates.map fun s => (s, [])
  let t1 ← loadNewTransitionDict ma A.trans t0
  let t2 ← loadNewTransitionDict mb B.trans t1
  -- new_transitions[state_map_a[state]].setdefault("", set()).add(state_map_b[other.initial_state])
  let t3 ← A.finals.foldlM (init := t2) fun t q => do
    let ka ← lookupE q ma
    let _ ← lookupE ka t
    let ib ← lookupE B.init mb
    pure (Tbl.addTargets t ka none [ib])
  let fb ← B.finals.mapM fun q => lookupE q mb
  let ia ← lookupE A.init ma
  create { states := newStates, syms := sunion A.syms B.syms, trans := t3, init := ia,
           finals := dedup fb }

/-! ### kleene_star, option, reverse -/

def kleeneStar (nat : Nat → σ) (A : NFA σ α) : Res (NFA σ α) :=
  let newInit := addNewState nat A.states
  let newStates := A.states ++ [newInit]
  -- dict(self.transitions); new_transitions[new_initial_state] = {"": {self.initial_state}}
  let t1 := ainsert newInit [(none, [A.init])] A.trans
  -- each final state gets (a copy of its row with) an ε-move to the old initial state
  let t2 := A.finals.foldl (fun t q => Tbl.addTargets t q none [A.init]) t1
  create { states := newStates, syms := A.syms, trans := t2, init := newInit,
           finals := sinsert newInit A.finals }

def option (nat : Nat → σ) (A : NFA σ α) : Res (NFA σ α) :=
  let newInit := addNewState nat A.states
  let newStates := A.states ++ [newInit]
  let t1 := ainsert newInit [(none, [A.init])] A.trans
  create { states := newStates, syms := A.syms, trans := t1, init := newInit,
           finals := sinsert newInit A.finals }

def reverse (nat : Nat → σ) (A : NFA σ α) : Res (NFA σ α) := do
  let newInit := addNewState nat A.states
  let newStates := A.states ++ [newInit]
  let t0 : Tbl σ α := (dedup newStates).map fun s => (s, [])
  let t1 ← A.trans.foldlM (init := t0) fun t kv =>
    if kv.1 ∈ A.states then
      kv.2.foldlM (init := t) fun t e =>
        e.2.foldlM (init := t) fun t b =>
          -- new_transitions[state_b].setdefault(symbol, set()).add(state_a)
          match alookup b t with
          | none => .error (.py .keyError)
          | some _ => pure (Tbl.addTargets t b e.1 [kv.1])
    else pure t
  -- new_transitions[new_initial_state][""] = set(self.final_states)
  let _ ← lookupE newInit t1
  let t2 := Tbl.setTargets t1 newInit none A.finals
  create { states := newStates, syms := A.syms, trans := t2, init := newInit, finals := [A.init] }

/-! ### intersection (BFS over pairs) -/

/-- Body of the `while queue` loop for the popped product state `cur`:
updated `new_transitions` and `chain.from_iterable(next_states_iterables)`. -/
def interStep (A : NFA σ₁ α) (B : NFA σ₂ α) (syms : List α) (t : Tbl (σ₁ × σ₂) α)
    (cur : σ₁ × σ₂) : Tbl (σ₁ × σ₂) α × List (σ₁ × σ₂) :=
  let ta := A.row cur.1
  let tb := B.row cur.2
  let s1 : Tbl (σ₁ × σ₂) α × List (σ₁ × σ₂) :=
    match alookup none ta with
    | some ea => let xs := ea.map fun p => (p, cur.2); (Tbl.addTargets t cur none xs, xs)
    | none => (t, [])
  let s2 : Tbl (σ₁ × σ₂) α × List (σ₁ × σ₂) :=
    match alookup none tb with
    | some eb => let xs := eb.map fun p => (cur.1, p); (Tbl.addTargets s1.1 cur none xs, s1.2 ++ xs)
    | none => s1
  syms.foldl (fun s a =>
    match alookup (some a) ta, alookup (some a) tb with
    | some ea, some eb => let xs := lprod ea eb; (Tbl.addTargets s.1 cur (some a) xs, s.2 ++ xs)
    | _, _ => s) s2

/-- `if product_state not in new_states: new_states.add(..); queue.append(..)`. -/
def interVisit (acc : List (σ₁ × σ₂) × List (σ₁ × σ₂)) (ps : σ₁ × σ₂) :
    List (σ₁ × σ₂) × List (σ₁ × σ₂) :=
  if ps ∈ acc.2 then acc else (acc.1 ++ [ps], acc.2 ++ [ps])

/-- The work-list loop: `(queue, new_states, new_transitions)`; `fuel` bounds the pops. -/
def interLoop (A : NFA σ₁ α) (B : NFA σ₂ α) (syms : List α) :
    Nat → List (σ₁ × σ₂) → List (σ₁ × σ₂) → Tbl (σ₁ × σ₂) α → List (σ₁ × σ₂) × Tbl (σ₁ × σ₂) α
  | 0, _, ns, t => (ns, t)
  | _ + 1, [], ns, t => (ns, t)
  | fuel + 1, cur :: queue, ns, t =>
    let s := interStep A B syms t cur
    let v := s.2.foldl interVisit (queue, ns)
    interLoop A B syms fuel v.1 v.2 s.1

def intersection (A : NFA σ₁ α) (B : NFA σ₂ α) : Res (NFA (σ₁ × σ₂) α) :=
  let syms := sunion A.syms B.syms
  let init := (A.init, B.init)
  -- every product state ever met lies in (init ∪ nodes A) × (init ∪ nodes B)
  let fuel := (A.nodes.length + 1) * (B.nodes.length + 1) + 1
  let r := interLoop A B syms fuel [init] [init] []
  let finals := r.1.filter fun p => decide (p.1 ∈ A.finals) && decide (p.2 ∈ B.finals)
  create { states := r.1, syms := syms, trans := r.2, init := init, finals := finals }

/-! ### shuffle product -/

def shuffleProduct (A : NFA σ₁ α) (B : NFA σ₂ α) : Res (NFA (σ₁ × σ₂) α) :=
  let newStates := lprod A.states B.states
  let t := newStates.foldl (fun (t : Tbl (σ₁ × σ₂) α) cur =>
    let t := Tbl.touch t cur
    let t := (A.row cur.1).foldl (fun t e => Tbl.addTargets t cur e.1 (e.2.map fun p => (p, cur.2))) t
    (B.row cur.2).foldl (fun t e => Tbl.addTargets t cur e.1 (e.2.map fun p => (cur.1, p))) t) []
  create { states := newStates, syms := sunion A.syms B.syms, trans := t,
           init := (A.init, B.init), finals := lprod A.finals B.finals }

/-! ### quotients (on the ε-eliminated operands) -/

/-- The inner `for symbol in new_input_symbols` loop shared by both quotients:
common-symbol moves of the two ε-free tables become ε-moves of the product. -/
def quotientSync (syms : List α) (ta : Tbl σ₁ α) (tb : Tbl σ₂ α) (flag : Bool)
    (t : Tbl (σ₁ × σ₂ × Bool) α) (qa : σ₁) (qb : σ₂) : Tbl (σ₁ × σ₂ × Bool) α :=
  let rowa := (alookup qa ta).getD []
  let rowb := (alookup qb tb).getD []
  syms.foldl (fun t a =>
    match alookup (some a) rowa, alookup (some a) rowb with
    | some ea, some eb =>
        Tbl.addTargets t (qa, qb, flag) none ((lprod ea eb).map fun p => (p.1, p.2, flag))
    | _, _ => t) t

def rightQuotient (A : NFA σ₁ α) (B : NFA σ₂ α) : Res (NFA (σ₁ × σ₂ × Bool) α) := do
  let (ra, ta, fa) ← NFAElim.core A
  let (rb, tb, fb) ← NFAElim.core B
  let syms := sunion A.syms B.syms
  let init := (A.init, B.init, false)
  let finals := (lprod fa fb).map fun p => (p.1, p.2, true)
  let states := dedup ((ra.map fun q => (q, B.init, false)) ++
                       (lprod ra rb).map fun p => (p.1, p.2, true))
  -- before reading the suffix
  let t1 := ra.foldl (fun (t : Tbl (σ₁ × σ₂ × Bool) α) q =>
    let ns := (q, B.init, false)
    let t := Tbl.touch t ns
    let t := match alookup q ta with
      | some old => old.foldl (fun t e => Tbl.setTargets t ns e.1 (e.2.map fun p => (p, B.init, false))) t
      | none => t
    Tbl.setTargets t ns none [(q, B.init, true)]) []
  -- reading the suffix silently
  let t2 := (lprod ra rb).foldl (fun t p => quotientSync syms ta tb true t p.1 p.2) t1
  create { states := states, syms := syms, trans := t2, init := init, finals := finals }

def leftQuotient (A : NFA σ₁ α) (B : NFA σ₂ α) : Res (NFA (σ₁ × σ₂ × Bool) α) := do
  let (ra, ta, fa) ← NFAElim.core A
  let (rb, tb, fb) ← NFAElim.core B
  let syms := sunion A.syms B.syms
  let init := (A.init, B.init, false)
  let finals := (lprod fa fb).map fun p => (p.1, p.2, true)
  let states := dedup (((lprod ra rb).map fun p => (p.1, p.2, false)) ++
                       (lprod ra fb).map fun p => (p.1, p.2, true))
  -- reading the prefix silently
  let t1 := (lprod ra rb).foldl (fun (t : Tbl (σ₁ × σ₂ × Bool) α) p =>
    let t := Tbl.touch t (p.1, p.2, false)
    let t := quotientSync syms ta tb false t p.1 p.2
    if p.2 ∈ fb then Tbl.addTargets t (p.1, p.2, false) none [(p.1, p.2, true)] else t) []
  -- after the prefix
  let t2 := (lprod ra fb).foldl (fun t p =>
    let ns := (p.1, p.2, true)
    let t := Tbl.touch t ns
    match alookup p.1 ta with
    | some old => old.foldl (fun t e => Tbl.setTargets t ns e.1 (e.2.map fun q => (q, p.2, true))) t
    | none => t) t1
  create { states := states, syms := syms, trans := t2, init := init, finals := finals }

/-! ### operators -/

/-- `A | B`. -/
def orOp (A : NFA σ₁ α) (B : NFA σ₂ α) : Res (NFA Nat α) := A.union B
/-- `A + B`. -/
def addOp (A : NFA σ₁ α) (B : NFA σ₂ α) : Res (NFA Nat α) := A.concatenate B
/-- `A & B`. -/
def andOp (A : NFA σ₁ α) (B : NFA σ₂ α) : Res (NFA (σ₁ × σ₂) α) := A.intersection B

end NFA
end AV
