/-
Model/ConvertE.lean — failure-tracking refinements of the TOTAL models of Model/Convert.lean
(`DFA.from_nfa` through `_expand_dfa`, `NFA.eliminate_lambda`, `NFA.from_dfa`) and of the
composition `DFA.complement(minify=True)` = `to_complete` ; BFS ; `_minify`.

As in Model/DFAOpsE.lean every Python SUBSCRIPT `d[k]` of the real function is a lookup that ends
with `KeyError` when `k` is absent; `.get`, `setdefault`, membership-guarded reads and `pop(k, None)`
stay total.  Everything else (values, orders, fuel) is the total model's, so that
`xE … = .ok (x …)` can be stated (Props/C19h.lean).

Which subscripts of the code are modelled (line numbers of /repo/automata/fa/dfa.py and nfa.py):

`DFA.from_nfa`   dfa.py 2515 `target_nfa._get_lambda_closures()[target_nfa.initial_state]`  → `closureE`
`NFA._iterate_through_symbol_path_pairs`
                 nfa.py 284  `self.transitions.get(state, {})`: `.get`, total
                 nfa.py 288  `res_dict.setdefault(...)`: total
                 nfa.py 290  `lambda_closures[end_state]` for every end state of every non-lambda,
                             non-empty entry of every current state                        → `closureE`
`NFA._get_lambda_closures`  no subscript (dict comprehension over `self.states`; its keys are
                             exactly `self.states`, which is what `closureE` tests)
`DFA._expand_dfa` dfa.py 1039 `transitions = {initial_state_name: {}}`
                 1047–1049   `if tgt not in states: states.add(tgt); transitions[tgt] = {}` (store)
                 1051        `transitions[cur_state_name][chr] = tgt_state_name`: the SUBSCRIPT
                             `transitions[cur_state_name]`                                   → `alookup … | none => KeyError`
                 1053/1054   `final_states.add`
`DFA._bfs_edges` dfa.py 974–985 no subscript; `visited_set` and (for `retain_names=True`) `states`
                             hold the same elements whenever either is tested, one list models both;
                             for `retain_names=False` the names are the discovery indices
                             (`get_renaming_function(count(0))` is a `setdefault`, total) and the
                             loop below is run on the names (`expandRenumE`).
`NFA._eliminate_lambda` nfa.py 351 `lambda_closures[state]` for `state in self.states`      → `closureE`
                 354  `_get_next_current_states(lambda_enclosure, input_symbol)`             → `nextStatesE`
                      (nfa.py 303–307: `self.transitions[current_state]` is guarded by
                       `current_state not in self.transitions`, `.get(input_symbol, {})`,
                       `lambda_closures[end_state]` is a subscript — Model/NFA.lean)
                 359  `new_transitions.setdefault(state, {})`: total
                 361/362 `state_transition_dict[input_symbol].update` guarded by `in`: total
                 369/370 `new_transitions[state].pop("", None)` guarded by `state in new_transitions`
                 379/380 `new_transitions.pop(state)` for `state` in its own keys: structurally safe
`NFA._compute_reachable_states` nfa.py 325 `transitions.get(state)`: total, no subscript
`NFA.from_dfa`   nfa.py 172–177 a dict comprehension over `.items()`: NO subscript at all
`DFA.complement` dfa.py 937 `to_complete()` (Model/DFAOps.lean `toComplete`: its own reads are
                 `.items()` loops, membership tests and stores), 942 `complete_dfa.transitions[state]`
                 inside `_bfs_states`, then `_minify`                                         → `complementMinE`
-/
import AutomataVerif.Model.Convert
import AutomataVerif.Model.DFAOpsE
import AutomataVerif.Model.DFAComplement

namespace AV

/-! ### `_expand_dfa` as the loop the code runs -/

namespace DFA
variable {S α : Type} [DecidableEq S] [DecidableEq α]

/-- The mutable state of `_expand_dfa` + `_bfs_edges`: `transitions`, `states` (= `visited_set`),
`final_states`, `queue`. -/
structure ExpSt (S α : Type) where
  trans : List (S × List (α × S))
  states : List S
  finals : List S
  queue : List S
  deriving Repr

/-- One iteration of `for cur_state, chr, tgt_state in _bfs_edges(...)` (lines 1044–1054) followed
by the resumption of the generator (lines 983–985). -/
def expEdgeE (isFin : S → Bool) (cur : S) (st : ExpSt S α) (e : α × S) : Res (ExpSt S α) :=
  let trans1 := if e.2 ∈ st.states then st.trans else ainsert e.2 [] st.trans
  match alookup cur trans1 with
  | none => .error (.py .keyError)
  | some row =>
    .ok { trans := ainsert cur (ainsert e.1 e.2 row) trans1,
          states := sinsert e.2 st.states,
          finals := if isFin e.2 then sinsert e.2 st.finals else st.finals,
          queue := if e.2 ∈ st.states then st.queue else st.queue ++ [e.2] }

/-- `while queue: curr_state = queue.popleft(); for chr, tgt in expand_state_fn(curr_state): …`
(`expand_state_fn` may raise). -/
def expLoopE (succE : S → Res (List (α × S))) (isFin : S → Bool) :
    Nat → ExpSt S α → Res (ExpSt S α)
  | 0, st => .ok st
  | fuel + 1, st =>
    match st.queue with
    | [] => .ok st
    | q :: work =>
      match succE q with
      | .error e => .error e
      | .ok es =>
        match foldlE (expEdgeE isFin q) { st with queue := work } es with
        | .error e => .error e
        | .ok st' => expLoopE succE isFin fuel st'

/-- Lines 1039–1041 and 974/975: the state before the first pop. -/
def expInit (isFin : S → Bool) (init : S) : ExpSt S α :=
  { trans := [(init, [])], states := [init],
    finals := if isFin init then [init] else [], queue := [init] }

/-- `_expand_dfa(final_state_fn, initial_state, expand_state_fn, input_symbols,
retain_names=True, minify=False)` (the constructor call of line 1075 excluded). -/
def expandE (succE : S → Res (List (α × S))) (isFin : S → Bool) (syms : List α) (fuel : Nat)
    (init : S) : Res (DFA S α) :=
  match expLoopE succE isFin fuel (expInit isFin init) with
  | .error e => .error e
  | .ok st =>
    .ok { states := st.states, syms := syms, trans := st.trans, init := init, finals := st.finals,
          allowPartial := st.trans.any fun kv => kv.2.length != syms.length }

end DFA

namespace NFA
variable {σ α : Type} [DecidableEq σ] [DecidableEq α]

/-! ### `DFA.from_nfa` -/

/-- `_iterate_through_symbol_path_pairs(current_states)` with `lambda_closures[end_state]` a
subscript (for every end state of every entry that passes `if input_symbol and next_states`). -/
def subsetSuccE (n : NFA σ α) (S : List σ) : Res (List (α × List σ)) :=
  let entries : List (α × List σ) := S.flatMap fun q =>
    (n.row q).filterMap fun e =>
      match e.1 with
      | some a => if e.2.isEmpty then none else some (a, e.2)
      | none => none
  bindE (mapE (fun e => bindE (mapE n.closureE e.2) fun cs => .ok (e.1, cs.flatten)) entries)
    fun closed =>
      .ok ((dedup (closed.map Prod.fst)).map fun a =>
        (a, n.canon ((closed.filter fun e => decide (e.1 = a)).flatMap Prod.snd)))

/-- `DFA.from_nfa(n, retain_names=True, minify=False)`. -/
def toDFAE (n : NFA σ α) : Res (DFA (List σ) α) :=
  bindE (n.closureE n.init) fun c0 =>
    DFA.expandE n.subsetSuccE n.subsetFinal n.syms (2 ^ n.states.length + 1) (n.canon c0)

/-- `DFA.from_nfa(n, retain_names=True, minify=True)`. -/
def toDFAMinE (n : NFA σ α) (pick : List Nat → Nat := fun _ => 0) :
    Res (DFA (DFA.MinName (List σ)) α) :=
  bindE n.toDFAE fun P => DFA.minifyCoreE P.states P.syms P.trans P.init P.finals pick

/-! ### `NFA.eliminate_lambda` -/

/-- The body of `if next_current_states:` (lines 359–364) and its `else` (nothing). -/
def elimUpd (q : σ) (a : α) (nxt : List σ) (tr : List (σ × List (Option α × List σ))) :
    List (σ × List (Option α × List σ)) :=
  if nxt.isEmpty then tr
  else
    let row := (alookup q tr).getD []
    let old := (alookup (some a) row).getD []
    ainsert q (ainsert (some a) (sunion old nxt) row) tr

/-- One iteration of `for state in self.states` of `_eliminate_lambda`: `lambda_closures[state]`
and the `lambda_closures[end_state]` inside `_get_next_current_states` are subscripts. -/
def elimStepE (n : NFA σ α)
    (acc : List (σ × List (Option α × List σ)) × List σ) (q : σ) :
    Res (List (σ × List (Option α × List σ)) × List σ) :=
  bindE (n.closureE q) fun cl =>
    let encl := cl.filter fun p => decide (p ≠ q)
    bindE (foldlE (fun tr a => bindE (n.nextStatesE encl a) fun nxt => .ok (elimUpd q a nxt tr))
        acc.1 n.syms) fun trans =>
      let finals := if acc.2.any (fun p => decide (p ∈ encl)) then sinsert q acc.2 else acc.2
      let trans := match alookup q trans with
        | some row => ainsert q (row.filter fun e => e.1.isSome) trans
        | none => trans
      .ok (trans, finals)

/-- `_eliminate_lambda` followed by the arguments of the constructor call of `eliminate_lambda`. -/
def eliminateLambdaE (n : NFA σ α) : Res (NFA σ α) :=
  bindE (foldlE n.elimStepE (n.trans, dedup n.finals) n.states) fun r =>
    let reach := reachableStates n.init r.1 (n.nodes.length + 1)
    .ok { states := reach, syms := n.syms,
          trans := r.1.filter fun kv => decide (kv.1 ∈ reach),
          init := n.init, finals := reach.filter fun q => decide (q ∈ r.2) }

/-! ### `NFA.from_dfa` -/

/-- `NFA.from_dfa` performs no subscript: the failure-tracking version is the total one. -/
def ofDFAE (d : DFA σ α) : Res (NFA σ α) := .ok (ofDFA d)

end NFA

namespace DFA
variable {σ α : Type} [DecidableEq σ] [DecidableEq α]

/-- `complement(retain_names=True, minify=True)` as the code composes it: `to_complete()` iff
`allow_partial`, then the failure-tracking BFS + `_minify` of Model/DFAOpsE.lean. -/
def complementMinFullE (d : DFA σ α) (trap : σ) (pick : List Nat → Nat) :
    Res (DFA (MinName σ) α) :=
  match (if d.allowPartial then d.toComplete trap false else .ok d) with
  | .ok C => C.complementMinE pick
  | .error e => .error e

end DFA
end AV
