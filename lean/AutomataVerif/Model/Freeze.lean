/-
Model/Freeze.lean — automata/base/utils.py `freeze_value` on a model of Python values (C18).

`PyVal` has the container kinds the function distinguishes.  `freeze` mirrors the code
branch by branch, in the order of the `isinstance` tests:

    if isinstance(value, (str, int)):  return value
    if isinstance(value, dict):        return frozendict({k: freeze_value(v) for k, v in value.items()})
    if isinstance(value, set):         return frozenset(freeze_value(e) for e in value)
    if isinstance(value, (list, tuple)):
                                       return tuple(freeze_value(e) for e in value)
    if isinstance(value, AbstractMapping):
                                       return frozendict({k: freeze_value(v) for k, v in value.items()})
    if isinstance(value, AbstractSet) and not isinstance(value, frozenset):
                                       return frozenset(freeze_value(e) for e in value)
    if isinstance(value, AbstractSequence) and not isinstance(value, bytes):
                                       return tuple(freeze_value(e) for e in value)
    return value

(the `tuple` alternative of the fourth test is /repo fix 3900daf: tuples are entered, so a list
placed inside a tuple is frozen too; the fifth and sixth tests are /repo fix 0014d04, finding F37;
the seventh is /repo fix ab97679).
`frozendict` (the pure-Python implementation installed here) is a subclass of `dict`, so a
frozendict takes the `dict` branch (its values are frozen again); `frozenset` is not a `set`: it
is returned as it is, *without* looking inside — its elements are hashable, like dictionary keys,
which are never touched either.

The kinds are kinds of *behaviour under `isinstance`*, so subclasses of the builtins belong to
the kind of their base (`OrderedDict`, `defaultdict`, `Counter` are `dict`; a namedtuple is a
`tuple`; a list subclass is a `list`).  Three kinds stand for the containers that are NOT
instances of any builtin container and nevertheless hold, or give access to, changeable content:

  * `setlike` — a `collections.abc.Set` that is neither a `set` nor a `frozenset`: the
    `d.keys()` / `d.items()` views of a dictionary (live windows onto `d`: they change when `d`
    does), a user class deriving from `collections.abc.Set`.  Its elements need not be hashable
    (`{1: [2]}.items()` holds the tuple `(1, [2])`).
  * `maplike` — a `collections.abc.Mapping` that is not a `dict`: `types.MappingProxyType`
    (a read-only *view* of a dict somebody else can still write to), `collections.UserDict`,
    `collections.ChainMap`, a user class deriving from `collections.abc.Mapping`.
  * `seqlike` — a `collections.abc.Sequence` that is neither a `list` nor a `tuple` (nor `str` /
    `bytes`, which are atoms): `collections.UserList`, `collections.deque`, a user class deriving
    from `collections.abc.Sequence` (MNTM's annotation admits any `Sequence` of results).

All three are mutable-or-aliasing: `isFrozen` is false of them.  Until fixes 0014d04 / ab97679
`freeze_value` returned them as they were (`freezeOld` in Props/C18.lean), and this model hid the defect by
lumping them into `other`.  `other` now stands ONLY for genuinely immutable atoms (None, floats,
bools seen as such, bytes, …): objects with no content that can change.
-/
import AutomataVerif.Model.Basic
import AutomataVerif.Generated.ObjectProtocol

namespace AV.VA
open AV

inductive PyVal
  | str (s : String)
  | int (i : Int)
  | other (tag : Nat)
  | dict (kvs : List (PyVal × PyVal))
  | set (xs : List PyVal)
  | list (xs : List PyVal)
  | frozendict (kvs : List (PyVal × PyVal))
  | frozenset (xs : List PyVal)
  | tuple (xs : List PyVal)
  /-- a `collections.abc.Set` that is neither `set` nor `frozenset` (dict views, user classes) -/
  | setlike (xs : List PyVal)
  /-- a `collections.abc.Mapping` that is not a `dict` (mappingproxy, UserDict, ChainMap, …) -/
  | maplike (kvs : List (PyVal × PyVal))
  /-- a `collections.abc.Sequence` that is neither `list` nor `tuple` nor `str` / `bytes` (UserList, deque, …) -/
  | seqlike (xs : List PyVal)
  deriving Repr, Inhabited

namespace PyVal

mutual
/-- `freeze_value`. -/
def freeze : PyVal → PyVal
  | str s => str s
  | int i => int i
  | dict kvs => frozendict (freezeKVs kvs)
  | frozendict kvs => frozendict (freezeKVs kvs)     -- isinstance(frozendict(..), dict)
  | set xs => frozenset (freezeList xs)
  | list xs => tuple (freezeList xs)
  | tuple xs => tuple (freezeList xs)                -- isinstance(value, (list, tuple))
  | maplike kvs => frozendict (freezeKVs kvs)        -- isinstance(value, AbstractMapping)   (fix 0014d04)
  | setlike xs => frozenset (freezeList xs)          -- AbstractSet and not frozenset        (fix 0014d04)
  | seqlike xs => tuple (freezeList xs)              -- AbstractSequence and not bytes       (fix ab97679)
  | frozenset xs => frozenset xs
  | other t => other t
/-- `freeze_value(e) for e in value`. -/
def freezeList : List PyVal → List PyVal
  | [] => []
  | x :: xs => freeze x :: freezeList xs
/-- `{k: freeze_value(v) for k, v in value.items()}`. -/
def freezeKVs : List (PyVal × PyVal) → List (PyVal × PyVal)
  | [] => []
  | (k, v) :: t => (k, freeze v) :: freezeKVs t
end

mutual
/-- No `dict`, `set` or `list` object, and no set-like / mapping-like / sequence-like look-alike of
one (a view, a proxy, a user container), anywhere inside (keys included): the value cannot be changed through
any reference to it or to a part of it. -/
def isFrozen : PyVal → Bool
  | str _ => true
  | int _ => true
  | other _ => true
  | dict _ => false
  | set _ => false
  | list _ => false
  | setlike _ => false
  | maplike _ => false
  | seqlike _ => false
  | frozendict kvs => isFrozenKVs kvs
  | frozenset xs => isFrozenList xs
  | tuple xs => isFrozenList xs
def isFrozenList : List PyVal → Bool
  | [] => true
  | x :: xs => isFrozen x && isFrozenList xs
def isFrozenKVs : List (PyVal × PyVal) → Bool
  | [] => true
  | (k, v) :: t => isFrozen k && isFrozen v && isFrozenKVs t
end

mutual
/-- The values Python can build at all: every dictionary key and every element of a set /
frozenset is *hashable*.  On this model a value is hashable iff it is `isFrozen` — `dict`,
`set` and `list` objects are unhashable, a tuple / frozendict hashes its members / values
(so `(1, [2])` and `frozendict({1: [2]})` are unhashable too), atoms are hashable.  Lists,
tuples and the values of dicts / frozendicts may hold anything and nest arbitrarily.
What is excluded (`{[1]: 2}`, `{[1]}`, `frozenset([[1]])`, `{(1, [2]): 3}` …) cannot occur:
building such an object raises `TypeError: unhashable type` in Python before `freeze_value`
could ever see it.  A `maplike` has hashable keys like a dict (every Mapping of the standard
library is backed by dicts); a `setlike` may hold anything (the items view of `{1: [2]}` holds
`(1, [2])`; a user `Set` may keep its elements in a list). -/
def supported : PyVal → Bool
  | str _ => true
  | int _ => true
  | other _ => true
  | dict kvs => supportedKVs kvs
  | frozendict kvs => supportedKVs kvs
  | set xs => isFrozenList xs
  | list xs => supportedList xs
  | frozenset xs => isFrozenList xs
  | tuple xs => supportedList xs
  | setlike xs => supportedList xs        -- elements need not be hashable: `{1: [2]}.items()`
  | maplike kvs => supportedKVs kvs
  | seqlike xs => supportedList xs
def supportedList : List PyVal → Bool
  | [] => true
  | x :: xs => supported x && supportedList xs
def supportedKVs : List (PyVal × PyVal) → Bool
  | [] => true
  | (k, v) :: t => isFrozen k && supported v && supportedKVs t
end

mutual
/-- The abstract value: the same tree with every mutable container kind replaced by its
immutable counterpart, everywhere (inside tuples, frozensets and keys too).  Two Python
values with the same `norm` have the same mathematical content. -/
def norm : PyVal → PyVal
  | str s => str s
  | int i => int i
  | other t => other t
  | dict kvs => frozendict (normKVs kvs)
  | frozendict kvs => frozendict (normKVs kvs)
  | set xs => frozenset (normList xs)
  | frozenset xs => frozenset (normList xs)
  | list xs => tuple (normList xs)
  | tuple xs => tuple (normList xs)
  | setlike xs => frozenset (normList xs)
  | maplike kvs => frozendict (normKVs kvs)
  | seqlike xs => tuple (normList xs)
def normList : List PyVal → List PyVal
  | [] => []
  | x :: xs => norm x :: normList xs
def normKVs : List (PyVal × PyVal) → List (PyVal × PyVal)
  | [] => []
  | (k, v) :: t => (norm k, norm v) :: normKVs t
end

end PyVal

/-! ## Automaton objects: attribute protocol, `input_parameters`, `copy`, pickling

automata/base/automaton.py `__init__`, `__post_init__`, `__setattr__`, `__delattr__`,
`__getstate__`, `__setstate__`, `input_parameters`, `copy`; the per-class `__init__`s
(which keyword arguments they take and which they hand to `Automaton.__init__`) come from
the regenerated tables `AV.Gen.Slots` / `AV.Gen.Validate.superInitKwargs`. -/

/-- A live automaton object: its class and everything stored on it through
`object.__setattr__` (slots and `__dict__` entries alike), in assignment order. -/
structure Inst where
  cls : String
  attrs : List (String × PyVal)
  deriving Repr

/-- What the source says about an attribute hook (`__setattr__` / `__delattr__`) of the automaton
classes, read from the regenerated table `AV.Gen.Object.attrHooks` (every definition of the hook
in `Automaton` or a class deriving from it, with the shape of its body). -/
inductive HookShape
  /-- defined by `Automaton` only, and its body is the single statement `raise AttributeError(...)` -/
  | raisesAttributeError
  /-- defined nowhere: `object.__setattr__` / `object.__delattr__` apply -/
  | inherited
  /-- anything else (a conditional raise, extra statements, an override in a subclass, …) -/
  | unknown
  deriving DecidableEq, Repr

def hookShape (hook : String) : HookShape :=
  match Gen.Object.attrHooks.filter (fun t => t.2.1 == hook) with
  | [] => .inherited
  | [(cls, _, shape)] =>
    if cls == "Automaton" && shape == "raise AttributeError" then .raisesAttributeError else .unknown
  | _ => .unknown

/-- `obj.name = v`.  `Automaton.__setattr__` as the source has it: when (and only when) the
regenerated shape of the hook is "the body is `raise AttributeError(...)`, no subclass overrides
it", the assignment raises for every object, name and value.  In every other case the model
makes no claim of protection: the attribute is rebound, as `object.__setattr__` would. -/
def Inst.setattr (o : Inst) (name : String) (v : PyVal) : Res Inst :=
  match hookShape "__setattr__" with
  | .raisesAttributeError => .error (.py .attributeError)
  | _ => .ok { o with attrs := ainsert name v o.attrs }

/-- `del obj.name`; `Automaton.__delattr__`, read from the source in the same way. -/
def Inst.delattr (o : Inst) (name : String) : Res Inst :=
  match hookShape "__delattr__" with
  | .raisesAttributeError => .error (.py .attributeError)
  | _ => if ahas name o.attrs then .ok { o with attrs := o.attrs.filter (fun kv => kv.1 != name) }
         else .error (.py .attributeError)

/-- `Automaton.__init__(**kwargs)` storing loop: freeze unless `allow_mutable_automata`. -/
def storeKwargs (allowMutable : Bool) (kwargs : List (String × PyVal)) : List (String × PyVal) :=
  kwargs.map fun kv => (kv.1, if allowMutable then kv.2 else kv.2.freeze)

/-- The constructor under the two global options, for any representation `κ` of the
arguments with abstract value `abs`, stored form `freeze`, and validator `v` on abstract
values.  `alwaysValidate` is `GNFA.__post_init__`, which ignores the option. -/
def construct {κ δ : Type} (abs : κ → δ) (freeze : κ → κ) (v : δ → Res Unit) (alwaysValidate : Bool)
    (shouldValidate allowMutable : Bool) (c : κ) : Res κ :=
  let stored := if allowMutable then c else freeze c
  if shouldValidate || alwaysValidate then
    (match v (abs stored) with
     | .ok _ => .ok stored
     | .error e => .error e)
  else .ok stored

end AV.VA
