/-
Model/Freeze.lean — automata/base/utils.py `freeze_value` on a model of Python values (C18).

`PyVal` has the container kinds the function distinguishes.  `freeze` mirrors the code
branch by branch, in the order of the `isinstance` tests:

    if isinstance(value, (str, int)):  return value
    if isinstance(value, dict):        return frozendict({k: freeze_value(v) for k, v in value.items()})
    if isinstance(value, set):         return frozenset(freeze_value(e) for e in value)
    if isinstance(value, (list, tuple)):
                                       return tuple(freeze_value(e) for e in value)
    return value

(the `tuple` alternative of the last test is /repo fix 3900daf: tuples are entered, so a list
placed inside a tuple is frozen too).  `frozendict` (the pure-Python implementation installed
here) is a subclass of `dict`, so a frozendict takes the `dict` branch (its values are frozen
again); `frozenset` is not a `set`: it is returned as it is, *without* looking inside — its
elements are hashable, like dictionary keys, which are never touched either.  `other` stands
for every other object (None, floats, …), treated as an immutable atom.
-/
import AutomataVerif.Model.Basic
import AutomataVerif.Generated.ObjectProtocol

namespace AV.VA
open AV

inductive PyVal
  | str (s : String)
  | int (i : Int)
  | other (tag : Nat)
  | dict (kvs : List (PyVal × PyVal))
  | set (xs : List PyVal)
  | list (xs : List PyVal)
  | frozendict (kvs : List (PyVal × PyVal))
  | frozenset (xs : List PyVal)
  | tuple (xs : List PyVal)
  deriving Repr, Inhabited

namespace PyVal

mutual
/-- `freeze_value`. -/
def freeze : PyVal → PyVal
  | str s => str s
  | int i => int i
  | dict kvs => frozendict (freezeKVs kvs)
  | frozendict kvs => frozendict (freezeKVs kvs)     -- isinstance(frozendict(..), dict)
  | set xs => frozenset (freezeList xs)
  | list xs => tuple (freezeList xs)
  | tuple xs => tuple (freezeList xs)                -- isinstance(value, (list, tuple))
  | frozenset xs => frozenset xs
  | other t => other t
/-- `freeze_value(e) for e in value`. -/
def freezeList : List PyVal → List PyVal
  | [] => []
  | x :: xs => freeze x :: freezeList xs
/-- `{k: freeze_value(v) for k, v in value.items()}`. -/
def freezeKVs : List (PyVal × PyVal) → List (PyVal × PyVal)
  | [] => []
  | (k, v) :: t => (k, freeze v) :: freezeKVs t
end

mutual
/-- No `dict`, `set` or `list` object anywhere inside (keys included): the value cannot be
changed through any reference to it or to a part of it. -/
def isFrozen : PyVal → Bool
  | str _ => true
  | int _ => true
  | other _ => true
  | dict _ => false
  | set _ => false
  | list _ => false
  | frozendict kvs => isFrozenKVs kvs
  | frozenset xs => isFrozenList xs
  | tuple xs => isFrozenList xs
def isFrozenList : List PyVal → Bool
  | [] => true
  | x :: xs => isFrozen x && isFrozenList xs
def isFrozenKVs : List (PyVal × PyVal) → Bool
  | [] => true
  | (k, v) :: t => isFrozen k && isFrozen v && isFrozenKVs t
end

mutual
/-- The values Python can build at all: every dictionary key and every element of a set /
frozenset is *hashable*.  On this model a value is hashable iff it is `isFrozen` — `dict`,
`set` and `list` objects are unhashable, a tuple / frozendict hashes its members / values
(so `(1, [2])` and `frozendict({1: [2]})` are unhashable too), atoms are hashable.  Lists,
tuples and the values of dicts / frozendicts may hold anything and nest arbitrarily.
What is excluded (`{[1]: 2}`, `{[1]}`, `frozenset([[1]])`, `{(1, [2]): 3}` …) cannot occur:
building such an object raises `TypeError: unhashable type` in Python before `freeze_value`
could ever see it. -/
def supported : PyVal → Bool
  | str _ => true
  | int _ => true
  | other _ => true
  | dict kvs => supportedKVs kvs
  | frozendict kvs => supportedKVs kvs
  | set xs => isFrozenList xs
  | list xs => supportedList xs
  | frozenset xs => isFrozenList xs
  | tuple xs => supportedList xs
def supportedList : List PyVal → Bool
  | [] => true
  | x :: xs => supported x && supportedList xs
def supportedKVs : List (PyVal × PyVal) → Bool
  | [] => true
  | (k, v) :: t => isFrozen k && supported v && supportedKVs t
end

mutual
/-- The abstract value: the same tree with every mutable container kind replaced by its
immutable counterpart, everywhere (inside tuples, frozensets and keys too).  Two Python
values with the same `norm` have the same mathematical content. -/
def norm : PyVal → PyVal
  | str s => str s
  | int i => int i
  | other t => other t
  | dict kvs => frozendict (normKVs kvs)
  | frozendict kvs => frozendict (normKVs kvs)
  | set xs => frozenset (normList xs)
  | frozenset xs => frozenset (normList xs)
  | list xs => tuple (normList xs)
  | tuple xs => tuple (normList xs)
def normList : List PyVal → List PyVal
  | [] => []
  | x :: xs => norm x :: normList xs
def normKVs : List (PyVal × PyVal) → List (PyVal × PyVal)
  | [] => []
  | (k, v) :: t => (norm k, norm v) :: normKVs t
end

end PyVal

/-! ## Automaton objects: attribute protocol, `input_parameters`, `copy`, pickling

automata/base/automaton.py `__init__`, `__post_init__`, `__setattr__`, `__delattr__`,
`__getstate__`, `__setstate__`, `input_parameters`, `copy`; the per-class `__init__`s
(which keyword arguments they take and which they hand to `Automaton.__init__`) come from
the regenerated tables `AV.Gen.Slots` / `AV.Gen.Validate.superInitKwargs`. -/

/-- A live automaton object: its class and everything stored on it through
`object.__setattr__` (slots and `__dict__` entries alike), in assignment order. -/
structure Inst where
  cls : String
  attrs : List (String × PyVal)
  deriving Repr

/-- What the source says about an attribute hook (`__setattr__` / `__delattr__`) of the automaton
classes, read from the regenerated table `AV.Gen.Object.attrHooks` (every definition of the hook
in `Automaton` or a class deriving from it, with the shape of its body). -/
inductive HookShape
  /-- defined by `Automaton` only, and its body is the single statement `raise AttributeError(...)` -/
  | raisesAttributeError
  /-- defined nowhere: `object.__setattr__` / `object.__delattr__` apply -/
  | inherited
  /-- anything else (a conditional raise, extra statements, an override in a subclass, …) -/
  | unknown
  deriving DecidableEq, Repr

def hookShape (hook : String) : HookShape :=
  match Gen.Object.attrHooks.filter (fun t => t.2.1 == hook) with
  | [] => .inherited
  | [(cls, _, shape)] =>
    if cls == "Automaton" && shape == "raise AttributeError" then .raisesAttributeError else .unknown
  | _ => .unknown

/-- `obj.name = v`.  `Automaton.__setattr__` as the source has it: when (and only when) the
regenerated shape of the hook is "the body is `raise AttributeError(...)`, no subclass overrides
it", the assignment raises for every object, name and value.  In every other case the model
makes no claim of protection: the attribute is rebound, as `object.__setattr__` would. -/
def Inst.setattr (o : Inst) (name : String) (v : PyVal) : Res Inst :=
  match hookShape "__setattr__" with
  | .raisesAttributeError => .error (.py .attributeError)
  | _ => .ok { o with attrs := ainsert name v o.attrs }

/-- `del obj.name`; `Automaton.__delattr__`, read from the source in the same way. -/
def Inst.delattr (o : Inst) (name : String) : Res Inst :=
  match hookShape "__delattr__" with
  | .raisesAttributeError => .error (.py .attributeError)
  | _ => if ahas name o.attrs then .ok { o with attrs := o.attrs.filter (fun kv => kv.1 != name) }
         else .error (.py .attributeError)

/-- `Automaton.__init__(**kwargs)` storing loop: freeze unless `allow_mutable_automata`. -/
def storeKwargs (allowMutable : Bool) (kwargs : List (String × PyVal)) : List (String × PyVal) :=
  kwargs.map fun kv => (kv.1, if allowMutable then kv.2 else kv.2.freeze)

/-- The constructor under the two global options, for any representation `κ` of the
arguments with abstract value `abs`, stored form `freeze`, and validator `v` on abstract
values.  `alwaysValidate` is `GNFA.__post_init__`, which ignores the option. -/
def construct {κ δ : Type} (abs : κ → δ) (freeze : κ → κ) (v : δ → Res Unit) (alwaysValidate : Bool)
    (shouldValidate allowMutable : Bool) (c : κ) : Res κ :=
  let stored := if allowMutable then c else freeze c
  if shouldValidate || alwaysValidate then
    (match v (abs stored) with
     | .ok _ => .ok stored
     | .error e => .error e)
  else .ok stored

end AV.VA
