/-
Model/DFALen.lean — the builtin `len(dfa)` (property C13, review gap G1).

`DFA.__len__` (automata/fa/dfa.py) is `return self.cardinality()`: that method is `DFA.len`
in Model/DFAQuery.lean.  The builtin `len(obj)` is more than the method call: CPython's
`PyObject_Size` converts the result of `__len__` to a `Py_ssize_t` (slot `sq_length`) and raises
`OverflowError: cannot fit 'int' into an index-sized integer` when it does not fit, i.e. when it
exceeds `sys.maxsize` (= 2^63 - 1 on the 64-bit CPython this project is pinned to).  So
`len(DFA.of_length({'a','b'}, min_length=0, max_length=64))` raises although the language is
finite (36893488147419103231 words; `cardinality()` and `dfa.__len__()` return that number).

`PyErr` (Model/Basic.lean, shared) has no `OverflowError`, so the result type of `len` is local:
`Except LenErr Nat`.  Core only.
-/
import AutomataVerif.Model.DFAQuery

namespace AV
namespace DFA

/-- What `len(dfa)` can raise: whatever `__len__` raises, or the interpreter's `OverflowError`. -/
inductive LenErr
  | exn (e : Exn)
  | overflowError
  deriving DecidableEq, Repr, Inhabited

def LenErr.name : LenErr → String
  | .exn e => e.name
  | .overflowError => "OverflowError"

/-- `sys.maxsize + 1` on 64-bit CPython: the first value that does not fit a `Py_ssize_t`. -/
def ssizeLimit : Nat := 2 ^ 63

/-- The `Py_ssize_t` conversion of a (non-negative) result of `__len__`. -/
def toSsize (n : Nat) : Except LenErr Nat :=
  match decide (n < ssizeLimit) with
  | true => .ok n
  | false => .error .overflowError

variable {σ α : Type} [DecidableEq σ] [DecidableEq α]

/-- The builtin `len(dfa)`: call `__len__`, then convert to `Py_ssize_t`. -/
def lenBuiltin (d : DFA σ α) : Except LenErr Nat :=
  match d.len with
  | .error e => .error (.exn e)
  | .ok n => toSsize n

end DFA
end AV
