/-
Model/NFAOpsPy.lean — the NFA operations over ONE universal type of state names (Lean core
only).

Python has a single universe of hashable names: an NFA whose states are ints, the pairs
`(q_a, q_b)` built by `intersection` / `shuffle_product`, the triples `(q_a, q_b, flag)`
built by the quotients, strings, frozensets … can all be handed to any further operation,
and `kleene_star` / `option` / `reverse` then add the INT `_add_new_state` picks next to
names of whatever shape.  The typed model of Model/NFAOps.lean gives every operation its own
result type (`Nat`, `σ₁ × σ₂`, `σ₁ × σ₂ × Bool`); here those results are embedded back into
`PyName`, so that every operation maps `NFA PyName α` to `NFA PyName α` and arbitrary
expression trees can be evaluated — with mixed names exactly as in Python.
-/
import AutomataVerif.Model.NFAOps

namespace AV

/-- Python state names as far as the NFA operations build or inspect them: ints, pairs,
triples whose last component is a Boolean (the quotients' flag), and any other hashable
value (`other k`: strings, frozensets, … — atoms, pairwise distinct and distinct from the
built shapes).  Python's cross-type equalities (`True == 1 == 1.0`) are the business of
whoever encodes a concrete Python value (`int 1` for all three). -/
inductive PyName
  | int (z : Int)
  | pair (a b : PyName)
  | triple (a b : PyName) (flag : Bool)
  | other (k : Nat)
  deriving DecidableEq, Repr

namespace PyName

/-- Python's `int` objects `0, 1, 2, …` — what `_add_new_state` and `_get_state_maps` produce. -/
def nat (k : Nat) : PyName := .int (Int.ofNat k)

/-- The tuple `(q_a, q_b)`. -/
def ofPair (p : PyName × PyName) : PyName := .pair p.1 p.2

/-- The tuple `(q_a, q_b, flag)`. -/
def ofTriple (t : PyName × PyName × Bool) : PyName := .triple t.1 t.2.1 t.2.2

end PyName

namespace NFA
variable {σ τ α : Type} [DecidableEq σ] [DecidableEq τ] [DecidableEq α]

/-- The same automaton with every state name `q` replaced by `f q` (states, row keys,
targets, initial and final states). -/
def mapStates (f : σ → τ) (n : NFA σ α) : NFA τ α :=
  { states := n.states.map f, syms := n.syms,
    trans := n.trans.map fun kv => (f kv.1, kv.2.map fun e => (e.1, e.2.map f)),
    init := f n.init, finals := n.finals.map f }

/-- `r` with the result's names embedded by `f`. -/
def mapRes (f : σ → τ) (r : Res (NFA σ α)) : Res (NFA τ α) :=
  match r with
  | .ok n => .ok (n.mapStates f)
  | .error e => .error e

/-! ### the operations, closed over `PyName` -/
namespace Py

def union (A B : NFA PyName α) : Res (NFA PyName α) := mapRes PyName.nat (NFA.union A B)
def concatenate (A B : NFA PyName α) : Res (NFA PyName α) := mapRes PyName.nat (NFA.concatenate A B)
def intersection (A B : NFA PyName α) : Res (NFA PyName α) :=
  mapRes PyName.ofPair (NFA.intersection A B)
def shuffleProduct (A B : NFA PyName α) : Res (NFA PyName α) :=
  mapRes PyName.ofPair (NFA.shuffleProduct A B)
def rightQuotient (A B : NFA PyName α) : Res (NFA PyName α) :=
  mapRes PyName.ofTriple (NFA.rightQuotient A B)
def leftQuotient (A B : NFA PyName α) : Res (NFA PyName α) :=
  mapRes PyName.ofTriple (NFA.leftQuotient A B)
/-- `_add_new_state` adds the first INT `0, 1, 2, …` that is not a state, whatever the other
names look like. -/
def kleeneStar (A : NFA PyName α) : Res (NFA PyName α) := NFA.kleeneStar PyName.nat A
def option (A : NFA PyName α) : Res (NFA PyName α) := NFA.option PyName.nat A
def reverse (A : NFA PyName α) : Res (NFA PyName α) := NFA.reverse PyName.nat A

end Py

/-- Expression trees over NFA leaves: the nine operations (the operators `| + &` are
`union`, `concatenate`, `intersection`). -/
inductive OpExpr (α : Type)
  | leaf (n : NFA PyName α)
  | union (l r : OpExpr α)
  | concatenate (l r : OpExpr α)
  | intersection (l r : OpExpr α)
  | shuffleProduct (l r : OpExpr α)
  | rightQuotient (l r : OpExpr α)
  | leftQuotient (l r : OpExpr α)
  | kleeneStar (e : OpExpr α)
  | option (e : OpExpr α)
  | reverse (e : OpExpr α)

namespace OpExpr

/-- Evaluate the tree bottom-up; an exception anywhere aborts the evaluation, as in Python. -/
def eval : OpExpr α → Res (NFA PyName α)
  | leaf n => .ok n
  | union l r => do let a ← l.eval; let b ← r.eval; Py.union a b
  | concatenate l r => do let a ← l.eval; let b ← r.eval; Py.concatenate a b
  | intersection l r => do let a ← l.eval; let b ← r.eval; Py.intersection a b
  | shuffleProduct l r => do let a ← l.eval; let b ← r.eval; Py.shuffleProduct a b
  | rightQuotient l r => do let a ← l.eval; let b ← r.eval; Py.rightQuotient a b
  | leftQuotient l r => do let a ← l.eval; let b ← r.eval; Py.leftQuotient a b
  | kleeneStar e => do let a ← e.eval; Py.kleeneStar a
  | option e => do let a ← e.eval; Py.option a
  | reverse e => do let a ← e.eval; Py.reverse a

end OpExpr

end NFA
end AV
