/-
Model/TMSim.lean — automata/tm/mntm.py:283-445: `MNTM._read_extended_tape` and
`MNTM.read_input_as_ntm` (the single-tape simulation on one *extended tape*).

The extended tape is a Python `str`; here a `List Γ` with two distinguished symbols
`hd` (`"^"`, written right after the scanned cell of a virtual tape) and `sep` (`"_"`,
closing every virtual tape).  The driver instantiates `Γ := Char`, `hd := '^'`, `sep := '_'`.

The splice loop is modelled with the index arithmetic **as written**: `i` is a Python
`int` (`Int`), subscripts and slices have Python semantics (`pyIdx`, `pyTake` = `l[:i]`,
`pyDrop` = `l[i:]`, negative indices count from the end, an out-of-range subscript is
`IndexError`).  The inner `while executing_changes` loop has no static bound for arbitrary
alphabets (a written symbol equal to `hd` is scanned again), so it takes fuel; `none`
means the fuel ran out.  `Proofs/TMSim.lean` shows the fuel chosen by `spliceAll`
suffices for every tape alphabet without `hd`/`sep`.
Lean core only.
-/
import AutomataVerif.Model.TM

namespace AV.TM
variable {σ Γ : Type} [DecidableEq σ] [DecidableEq Γ]

/-! ### Python sequence operations with `int` indices -/

/-- `l[i]` as an `Option` (`none` = `IndexError`). -/
def pyGet? (l : List Γ) (i : Int) : Option Γ :=
  if 0 ≤ i then l[i.toNat]?
  else if (-i).toNat ≤ l.length then l[l.length - (-i).toNat]? else none

/-- `l[i]`. -/
def pyIdx (l : List Γ) (i : Int) : Res Γ :=
  match pyGet? l i with
  | some s => .ok s
  | none => .error (.py .indexError)

/-- `l[:i]`. -/
def pyTake (l : List Γ) (i : Int) : List Γ :=
  if 0 ≤ i then l.take i.toNat else l.take (l.length - (-i).toNat)

/-- `l[i:]`. -/
def pyDrop (l : List Γ) (i : Int) : List Γ :=
  if 0 ≤ i then l.drop i.toNat else l.drop (l.length - (-i).toNat)

/-! ### `_read_extended_tape` -/

/-- Loop body of `_read_extended_tape`; `prev` is `tape[i-1]` (`none` iff `i = 0`, the
`i - 1 < 0` test), `heads` = `virtual_heads`, `hf` = `heads_found`, `seps` =
`separators_found`. -/
def readExtAux (hd sep : Γ) : Option Γ → List Γ → List Γ → Nat → Nat → Res (List Γ)
  | _, [], heads, _, seps =>
      if heads.length ≠ seps then .error (.lib .malformedExtendedTapeError) else .ok heads
  | prev, s :: rest, heads, hf, seps =>
      if s = hd then
        match prev with
        | none => .error (.lib .malformedExtendedTapeError)
        | some p => readExtAux hd sep (some s) rest (heads ++ [p]) (hf + 1) seps
      else if s = sep then
        if hf = 0 then .error (.lib .malformedExtendedTapeError)
        else if hf > 1 then .error (.lib .malformedExtendedTapeError)
        else readExtAux hd sep (some s) rest heads 0 (seps + 1)
      else readExtAux hd sep (some s) rest heads hf seps

/-- `_read_extended_tape(tape, head_symbol, tape_separator_symbol)`. -/
def readExtended (hd sep : Γ) (tape : List Γ) : Res (List Γ) :=
  readExtAux hd sep none tape [] 0 0

/-! ### the splice loop -/

/-- `new_tape[j] == tape_separator_symbol` (may raise `IndexError`). -/
def pyEqAt (sep : Γ) (tape : List Γ) (j : Int) : Res Bool :=
  match pyGet? tape j with
  | some s => .ok (decide (s = sep))
  | none => .error (.py .indexError)

/-- `new_tape[:i] + blank + new_tape[i:]`. -/
def pyInsert (tape : List Γ) (i : Int) (xs : List Γ) : List Γ := pyTake tape i ++ xs ++ pyDrop tape i

/-- The direction part of the head branch:
```
if direction == "R": i += 1
elif direction == "L":
    i -= 1
    if i == 0 or new_tape[i - 1] == tape_separator_symbol:
        new_tape = new_tape[:i] + blank + new_tape[i:]; i += 1
```
(any other direction: nothing). -/
def spliceDir (sep blank : Γ) (dir : Dir) (tape : List Γ) (i : Int) : Res (List Γ × Int) :=
  match dir with
  | .R => .ok (tape, i + 1)
  | .L =>
    if i - 1 = 0 then .ok (pyInsert tape (i - 1) [blank], i - 1 + 1)
    else
      match pyEqAt sep tape (i - 1 - 1) with
      | .error e => .error e
      | .ok true => .ok (pyInsert tape (i - 1) [blank], i - 1 + 1)
      | .ok false => .ok (tape, i - 1)
  | _ => .ok (tape, i)

/-- Re-inserting the head mark:
```
if i > 0 and new_tape[i - 1] == tape_separator_symbol:
    i -= 1; new_tape = new_tape[:i] + blank + head + new_tape[i:]; i += 1
else:
    new_tape = new_tape[:i] + head + new_tape[i:]
``` -/
def spliceMark (hd sep blank : Γ) (tape : List Γ) (i : Int) : Res (List Γ × Int) :=
  if i > 0 then
    match pyEqAt sep tape (i - 1) with
    | .error e => .error e
    | .ok true => .ok (pyInsert tape (i - 1) [blank, hd], i - 1 + 1)
    | .ok false => .ok (pyInsert tape i [hd], i)
  else .ok (pyInsert tape i [hd], i)

/-- The `if new_tape[i] == head_symbol:` branch (without the final `i += 1`):
```
new_tape = new_tape[: i - 1] + new_head + new_tape[i:]
new_tape = new_tape[:i] + "" + new_tape[i + 1 :]
```
then the direction part, then the head mark. -/
def spliceHead (hd sep blank newHead : Γ) (dir : Dir) (tape : List Γ) (i : Int) :
    Res (List Γ × Int) :=
  let tape1 := pyTake tape (i - 1) ++ [newHead] ++ pyDrop tape i
  let tape2 := pyTake tape1 i ++ pyDrop tape1 (i + 1)
  match spliceDir sep blank dir tape2 i with
  | .error e => .error e
  | .ok r => spliceMark hd sep blank r.1 r.2

/-- `while executing_changes:` for one move `(new_head, direction)`, from index `i`.
`.ok none`: fuel exhausted. -/
def scanMove (hd sep blank newHead : Γ) (dir : Dir) :
    Nat → List Γ → Int → Res (Option (List Γ × Int))
  | 0, _, _ => .ok none
  | fuel + 1, tape, i =>
    match pyGet? tape i with
    | none => .error (.py .indexError)
    | some s =>
      if s = hd then
        match spliceHead hd sep blank newHead dir tape i with
        | .error e => .error e
        | .ok r => scanMove hd sep blank newHead dir fuel r.1 (r.2 + 1)
      else if s = sep then
        .ok (some (tape, i + 1))
      else
        scanMove hd sep blank newHead dir fuel tape (i + 1)

/-- `for move in moves:` — `i` persists across the moves. -/
def spliceMoves (hd sep blank : Γ) : List (Γ × Dir) → List Γ → Int → Res (Option (List Γ × Int))
  | [], tape, i => .ok (some (tape, i))
  | m :: ms, tape, i =>
    match scanMove hd sep blank m.1 m.2 (2 * tape.length + 4) tape i with
    | .error e => .error e
    | .ok none => .ok none
    | .ok (some r) => spliceMoves hd sep blank ms r.1 r.2

/-- The queue entry appended for one `next_config`: `(next_state, new_tape, i - 1)`. -/
def spliceAll (hd sep blank : Γ) (tape : List Γ) (t : σ × List (Γ × Dir)) :
    Res (Option (σ × List Γ × Int)) :=
  match spliceMoves hd sep blank t.2 tape 0 with
  | .error e => .error e
  | .ok none => .ok none
  | .ok (some r) => .ok (some (t.1, r.1, r.2 - 1))

/-! ### `read_input_as_ntm` -/

/-- `"".join(chain.from_iterable((tape.tape[0], head, *tape.tape[1:], sep) for tape in tapes))`.
(`tape.tape[0]` exists: the constructor pads; the `[]` case cannot occur.) -/
def extOfTapes (hd sep : Γ) (tapes : List (Tape Γ)) : List Γ :=
  tapes.flatMap fun t =>
    match t.cells with
    | [] => []
    | c :: rest => c :: hd :: rest ++ [sep]

/-- A queue entry `(state, extended_tape, pos)`; the yielded value is
`{TMConfiguration(state, TMTape(extended_tape, blank, pos))}` (no padding happens:
`pos < len(extended_tape)`). -/
abbrev SimEntry (σ Γ : Type) := σ × List Γ × Int

/-- `for next_config in possible_configs:` — splice each, append `(state, tape, i - 1)`. -/
def spliceEach (hd sep blank : Γ) (tape : List Γ) :
    List (σ × List (Γ × Dir)) → List (SimEntry σ Γ) → Res (Option (List (SimEntry σ Γ)))
  | [], acc => .ok (some acc)
  | t :: ts, acc =>
    match spliceAll hd sep blank tape t with
    | .error e => .error e
    | .ok none => .ok none
    | .ok (some ent) => spliceEach hd sep blank tape ts (acc ++ [ent])

/-- What processing one entry does: `some none` = `return` (final state), an exception,
out of fuel (`.ok none`) or `some (some kids)` = the entries to append. -/
def simProcess (M : MNTM σ Γ) (hd sep : Γ) (e : SimEntry σ Γ) :
    Res (Option (Option (List (SimEntry σ Γ)))) :=
  if e.1 ∈ M.finals then .ok (some none) else
  match readExtended hd sep e.2.1 with
  | .error ex => .error ex
  | .ok heads =>
    -- try: possible_configs = self.transitions[current_state][virtual_heads]
    -- except KeyError: continue
    match (alookup e.1 M.trans).bind (alookup heads) with
    | none => .ok (some (some []))
    | some configs =>
      match spliceEach hd sep M.blank e.2.1 configs [] with
      | .error ex => .error ex
      | .ok none => .ok none
      | .ok (some kids) => .ok (some (some kids))

/-- State of the suspended generator: the entry just yielded and the queue; `none` once
the model ran out of splice fuel (never happens in the domain). -/
abbrev SimState (σ Γ : Type) := SimEntry σ Γ × List (SimEntry σ Γ)

/-- Out-of-fuel marker of the model (not a Python exception). -/
def spliceFuelExn : Exn := .py .assertion

/-- One `next()` on the generator suspended at `yield {current_config}`. -/
def simResume (M : MNTM σ Γ) (hd sep : Γ) (st : SimState σ Γ) :
    Resume (SimState σ Γ) (SimEntry σ Γ) :=
  match simProcess M hd sep st.1 with
  | .error e => .raise e
  | .ok none => .raise spliceFuelExn
  | .ok (some none) => .ret
  | .ok (some (some kids)) =>
    match st.2 ++ kids with
    | [] => .raise (.lib .rejectionException)
    | e' :: rest => .yield e' (e', rest)

/-- `read_input_as_ntm(w)` observed through `n` calls of `next()`. -/
def simStepwise (M : MNTM σ Γ) (hd sep : Γ) (w : List Γ) (n : Nat) :
    List (SimEntry σ Γ) × GenEnd :=
  let e0 : SimEntry σ Γ := (M.init, extOfTapes hd sep (M.initTapes w), 0)
  genStart (simResume M hd sep) e0 (e0, []) n

def simVerdict (M : MNTM σ Γ) (hd sep : Γ) (w : List Γ) (n : Nat) : Res Verdict :=
  verdictOf (simStepwise M hd sep w n).2

end AV.TM
