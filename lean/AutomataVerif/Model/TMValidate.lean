/-
Model/TMValidate.lean — `validate()` of DTM / NTM / MNTM, check by check in the order of the
code (automata/tm/tm.py, dtm.py:112-186, ntm.py:113-188, mntm.py:112-176 and the three
helpers of automata/base/automaton.py).  The first failing check raises.

Order (all three classes, `NTM.validate`; MNTM overrides three helpers and appends one):
 1. `_read_input_symbol_subset`      input_symbols < tape_symbols (proper)  MissingSymbolError
 2. `_validate_blank_symbol`         blank ∈ tape_symbols                   InvalidSymbolError
 3. `_validate_transitions`          per row, in dict order: key state ∈ states
                                     (InvalidStateError); every read symbol ∈ tape_symbols
                                     (InvalidSymbolError); every result: state
                                     (InvalidStateError), symbol (InvalidSymbolError),
                                     direction (InvalidDirectionError)
 4. `_validate_initial_state`        InvalidStateError
 5. `_validate_initial_state_transitions`  init has a row unless |states| ≤ 1  MissingStateError
 6. `_validate_nonfinal_initial_state`     InitialStateError
 7. `_validate_final_states`         finals ⊆ states                         InvalidStateError
 8. `_validate_final_state_transitions`    no final state has a row          FinalStateError
 9. (MNTM) `_validate_tapes_consistency`   |key| = n_tapes, |moves| = n_tapes InconsistentTapesException
Lean core only.
-/
import AutomataVerif.Model.TMDefs

namespace AV.TM
variable {σ Γ : Type} [DecidableEq σ] [DecidableEq Γ]

/-- Checks 1 and 2 (class `TM`). -/
def validateSymbols (inputSyms tapeSyms : List Γ) (blank : Γ) : Res Unit :=
  (guardE (inputSyms.all (fun a => decide (a ∈ tapeSyms)) &&
           tapeSyms.any (fun a => decide (a ∉ inputSyms))) (.lib .missingSymbolError)).andThen <|
  guardE (decide (blank ∈ tapeSyms)) (.lib .invalidSymbolError)

/-- `_validate_transition_result_direction`. -/
def validateDir (d : Dir) : Res Unit :=
  guardE (d != .bad) (.lib .invalidDirectionError)

/-- `_validate_transition_result((state, symbol, direction))`. -/
def validateResult (states : List σ) (tapeSyms : List Γ) (r : σ × Γ × Dir) : Res Unit :=
  (guardE (decide (r.1 ∈ states)) (.lib .invalidStateError)).andThen <|
  (guardE (decide (r.2.1 ∈ tapeSyms)) (.lib .invalidSymbolError)).andThen <|
  validateDir r.2.2

/-- Checks 4–8, shared (`trKeys` are the keys of the transition dict). -/
def validateStates (states : List σ) (trKeys : List σ) (init : σ) (finals : List σ) : Res Unit :=
  (guardE (decide (init ∈ states)) (.lib .invalidStateError)).andThen <|
  (guardE (decide (init ∈ trKeys) || decide ((dedup states).length ≤ 1))
      (.lib .missingStateError)).andThen <|
  (guardE (decide (init ∉ finals)) (.lib .initialStateError)).andThen <|
  (guardE (finals.all fun q => decide (q ∈ states)) (.lib .invalidStateError)).andThen <|
  firstErr finals fun q => guardE (decide (q ∉ trKeys)) (.lib .finalStateError)

namespace DTM

/-- One iteration of `_validate_transitions`. -/
def validateRow (M : DTM σ Γ) (kv : σ × List (Γ × (σ × Γ × Dir))) : Res Unit :=
  (guardE (decide (kv.1 ∈ M.states)) (.lib .invalidStateError)).andThen <|
  (firstErr (akeys kv.2) fun s => guardE (decide (s ∈ M.tapeSyms)) (.lib .invalidSymbolError)).andThen <|
  firstErr (avals kv.2) (validateResult M.states M.tapeSyms)

/-- `DTM.validate`. -/
def validate (M : DTM σ Γ) : Res Unit :=
  (validateSymbols M.inputSyms M.tapeSyms M.blank).andThen <|
  (firstErr M.trans M.validateRow).andThen <|
  validateStates M.states (akeys M.trans) M.init M.finals

end DTM

namespace NTM

def validateRow (M : NTM σ Γ) (kv : σ × List (Γ × List (σ × Γ × Dir))) : Res Unit :=
  (guardE (decide (kv.1 ∈ M.states)) (.lib .invalidStateError)).andThen <|
  (firstErr (akeys kv.2) fun s => guardE (decide (s ∈ M.tapeSyms)) (.lib .invalidSymbolError)).andThen <|
  firstErr (avals kv.2) fun results => firstErr results (validateResult M.states M.tapeSyms)

/-- `NTM.validate`. -/
def validate (M : NTM σ Γ) : Res Unit :=
  (validateSymbols M.inputSyms M.tapeSyms M.blank).andThen <|
  (firstErr M.trans M.validateRow).andThen <|
  validateStates M.states (akeys M.trans) M.init M.finals

end NTM

namespace MNTM

/-- One iteration of `_validate_transitions` with MNTM's overrides: the read symbols are
the flattened key tuples; a result `(state, moves)` is checked once per move as
`(state, symbol, direction)` (so the state of a result with no moves is never looked at). -/
def validateRow (M : MNTM σ Γ) (kv : σ × List (List Γ × List (σ × List (Γ × Dir)))) : Res Unit :=
  (guardE (decide (kv.1 ∈ M.states)) (.lib .invalidStateError)).andThen <|
  (firstErr ((akeys kv.2).flatMap id) fun s =>
      guardE (decide (s ∈ M.tapeSyms)) (.lib .invalidSymbolError)).andThen <|
  firstErr (avals kv.2) fun results => firstErr results fun result =>
    firstErr result.2 fun move => validateResult M.states M.tapeSyms (result.1, move.1, move.2)

/-- `_validate_tapes_consistency`. -/
def validateTapes (M : MNTM σ Γ) : Res Unit :=
  firstErr M.trans fun kv => firstErr kv.2 fun e =>
    (guardE (decide (e.1.length = M.nTapes)) (.lib .inconsistentTapesException)).andThen <|
    firstErr e.2 fun t => guardE (decide (t.2.length = M.nTapes)) (.lib .inconsistentTapesException)

/-- `MNTM.validate` = `NTM.validate` (with the overrides) then the tape-count check. -/
def validate (M : MNTM σ Γ) : Res Unit :=
  (validateSymbols M.inputSyms M.tapeSyms M.blank).andThen <|
  (firstErr M.trans M.validateRow).andThen <|
  (validateStates M.states (akeys M.trans) M.init M.finals).andThen <|
  M.validateTapes

end MNTM
end AV.TM
