/-
Model/NFATable.lean — the dict-of-dict-of-set idioms the NFA constructions use to build
`new_transitions` (Lean core only).

  t.setdefault(q, {})                                   ↦ `Tbl.touch`
  t.setdefault(q, {}).setdefault(a, set()).update(xs)   ↦ `Tbl.addTargets`
  t.setdefault(q, {})[a] = xs      (also `t[q][a] = xs` when the row exists)  ↦ `Tbl.setTargets`
  t[q]                                                   ↦ `lookupE`
  itertools.product                                      ↦ `lprod`
-/
import AutomataVerif.Model.NFA

namespace AV

/-- `d[k]`: `KeyError` when the key is missing. -/
def lookupE {κ β : Type} [DecidableEq κ] (k : κ) (d : List (κ × β)) : Res β :=
  match alookup k d with
  | some v => .ok v
  | none => .error (.py .keyError)

/-- `d.pop(k, None)`: remove the entry of `k` (dict keys are unique; every match is dropped). -/
def aerase {κ β : Type} [DecidableEq κ] (k : κ) (d : List (κ × β)) : List (κ × β) :=
  d.filter fun kv => !decide (kv.1 = k)

/-- `itertools.product(xs, ys)`. -/
def lprod {β γ : Type} (xs : List β) (ys : List γ) : List (β × γ) :=
  xs.flatMap fun x => ys.map fun y => (x, y)

/-- A transition row `{symbol: set_of_states}`; `none` is the empty string. -/
abbrev Row (σ α : Type) := List (Option α × List σ)
/-- A transition table `{state: row}`. -/
abbrev Tbl (σ α : Type) := List (σ × Row σ α)

namespace Tbl
variable {σ α : Type} [DecidableEq σ] [DecidableEq α]

/-- `t.get(q, {}).get(a, set())` — the reading used by `NFA.targets`. -/
def tgt (t : Tbl σ α) (q : σ) (a : Option α) : List σ :=
  (alookup a ((alookup q t).getD [])).getD []

/-- `t.setdefault(q, {})` (the row object is then updated in place by the caller). -/
def touch (t : Tbl σ α) (q : σ) : Tbl σ α :=
  match alookup q t with
  | some _ => t
  | none => t ++ [(q, [])]

/-- `t.setdefault(q, {}).setdefault(a, set()).update(xs)`. -/
def addTargets (t : Tbl σ α) (q : σ) (a : Option α) (xs : List σ) : Tbl σ α :=
  let row := (alookup q t).getD []
  ainsert q (ainsert a (sunion ((alookup a row).getD []) xs) row) t

/-- `t.setdefault(q, {})[a] = xs`. -/
def setTargets (t : Tbl σ α) (q : σ) (a : Option α) (xs : List σ) : Tbl σ α :=
  let row := (alookup q t).getD []
  ainsert q (ainsert a xs row) t

end Tbl

namespace NFA
variable {σ α : Type} [DecidableEq σ] [DecidableEq α]

/-- `cls(states=…, input_symbols=…, transitions=…, initial_state=…, final_states=…)`:
`Automaton.__init__` → `__post_init__` → `validate()` (default `should_validate_automata`). -/
def create (n : NFA σ α) : Res (NFA σ α) :=
  match n.validate with
  | .ok _ => .ok n
  | .error e => .error e

end NFA
end AV
