/-
Model/DFAOperators.lean — the option combinations of the DFA Boolean operations as ONE
function per operation, and the operators `| & - ^ ~` as what the source makes them: a call of
the method named in the regenerated table `AV.Gen.DfaDefaults.operators`, with the keyword
values of that call or — when a keyword is not passed — the keyword DEFAULT regenerated from the
method's signature (`AV.Gen.DfaDefaults.defaults`).  A change of a default, or of what an
operator calls, therefore changes these definitions and breaks `C04_operators` /
`C04_invert` / `C04_operator_table` (Props/C04.lean).  Lean core only.
-/
import AutomataVerif.Generated.DfaDefaults
import AutomataVerif.Model.DFAComplement

namespace AV
namespace DFA
variable {σ α : Type} [DecidableEq σ] [DecidableEq α]

/-- Result of a Boolean operation: the state type depends on the options. -/
inductive BinRes (σ α : Type)
  /-- `retain_names=True, minify=False`: product pairs -/
  | named (d : DFA (PState σ) α)
  /-- `retain_names=True, minify=True`: frozensets of product pairs -/
  | blocks (d : DFA (MinName (PState σ)) α)
  /-- `retain_names=False`: counter values -/
  | numbered (d : DFA Nat α)

/-- `A.op(B, retain_names=…, minify=…)` for the four option combinations. -/
def binopOpts (op : BinOp) (A B : DFA σ α) (retain minify : Bool) (pick : List Nat → Nat) :
    Res (BinRes σ α) :=
  match minify, retain with
  | false, true => (binopPlain op A B).map .named
  | false, false => (binopPlain op A B).map fun R => .numbered R.renumber
  | true, true => (binopMin op A B pick).map .blocks
  | true, false => (binopMin op A B pick).map fun M => .numbered M.renumber

/-- Result of `complement`. -/
inductive UnRes (σ α : Type)
  /-- `minify=False`: the operand's names (plus the trap name) whatever `retain_names` says -/
  | same (d : DFA σ α)
  | blocks (d : DFA (MinName σ) α)
  | numbered (d : DFA Nat α)

/-- `d.complement(retain_names=…, minify=…)`; `trap` is the id `_get_trap_state_id()` finds. -/
def complementOpts (d : DFA σ α) (trap : σ) (retain minify : Bool) (pick : List Nat → Nat) :
    Res (UnRes σ α) :=
  match minify, retain with
  | false, _ => (d.complementFull trap).map .same
  | true, true => (d.complementMinFull trap pick).map .blocks
  | true, false => (d.complementMinFull trap pick).map fun M => .numbered M.renumber

def BinOp.method : BinOp → String
  | .union => "union" | .inter => "intersection" | .diff => "difference"
  | .symm => "symmetric_difference"

def BinOp.dunder : BinOp → String
  | .union => "__or__" | .inter => "__and__" | .diff => "__sub__" | .symm => "__xor__"

/-- The value keyword `p` has in a call of method `m` that passes the keywords `kws`: the
passed value, else the default in the method's signature (regenerated from the source). -/
def kwValue (kws : List (String × Bool)) (m p : String) : Option Bool :=
  match kws.find? fun e => e.1 == p with
  | some e => some e.2
  | none => Gen.DfaDefaults.default? m p

/-- `A <op> B` for `| & - ^`: the `return self.<method>(other, …)` of the operator method as
regenerated from the source.  (`TypeError`: the operator is not defined / has an option
without a Boolean value; `AttributeError`: it calls something that is not the operation.) -/
def operator (op : BinOp) (A B : DFA σ α) (pick : List Nat → Nat) : Res (BinRes σ α) :=
  match Gen.DfaDefaults.operators.find? fun e => e.1 == op.dunder with
  | none => .error (.py .typeError)
  | some (_, m, kws, _, _) =>
    if m != op.method then .error (.py .attributeError)
    else
      match kwValue kws m "retain_names", kwValue kws m "minify" with
      | some r, some mi => binopOpts op A B r mi pick
      | _, _ => .error (.py .typeError)

/-- `A | B`. -/
abbrev or (A B : DFA σ α) (pick : List Nat → Nat) := operator .union A B pick
/-- `A & B`. -/
abbrev and (A B : DFA σ α) (pick : List Nat → Nat) := operator .inter A B pick
/-- `A - B`. -/
abbrev sub (A B : DFA σ α) (pick : List Nat → Nat) := operator .diff A B pick
/-- `A ^ B`. -/
abbrev xor (A B : DFA σ α) (pick : List Nat → Nat) := operator .symm A B pick

/-- `~d`: the `return self.complement(…)` of `__invert__` as regenerated from the source. -/
def invert (d : DFA σ α) (trap : σ) (pick : List Nat → Nat) : Res (UnRes σ α) :=
  match Gen.DfaDefaults.operators.find? fun e => e.1 == "__invert__" with
  | none => .error (.py .typeError)
  | some (_, m, kws, _, _) =>
    if m != "complement" then .error (.py .attributeError)
    else
      match kwValue kws m "retain_names", kwValue kws m "minify" with
      | some r, some mi => complementOpts d trap r mi pick
      | _, _ => .error (.py .typeError)

/-- `d.to_partial()` / `DFA.from_nfa(n)` / `d.union(B)` … called without keywords use these. -/
def defaultOf (m p : String) : Option Bool := Gen.DfaDefaults.default? m p

end DFA
end AV
