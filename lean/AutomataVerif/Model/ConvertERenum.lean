/-
Model/ConvertERenum.lean — `_expand_dfa(..., retain_names=False)` as the loop the code runs
(/repo/automata/fa/dfa.py 1035–1054, 974–985), with failures.

`get_name = get_renaming_function(count(0))` is a `defaultdict`-like `setdefault`: the first call on
a state hands out the next integer, later calls return it.  It is modelled by the list `names` of
the states named so far (the name of `s` is its index).  `transitions`, `states`, `final_states`
hold NAMES, `visited_set` and `queue` hold subset states.  The only subscript is
`transitions[cur_state_name]` (line 1051).
-/
import AutomataVerif.Model.ConvertE

namespace AV
namespace DFA
variable {S α : Type} [DecidableEq S] [DecidableEq α]

structure ExpStR (S α : Type) where
  trans : List (Nat × List (α × Nat))
  states : List Nat
  finals : List Nat
  queue : List S
  visited : List S
  names : List S
  deriving Repr

/-- One iteration of the `for` loop of `_expand_dfa` with `retain_names=False`, followed by the
resumption of `_bfs_edges`. -/
def expEdgeRE (isFin : S → Bool) (cur : S) (r : ExpStR S α) (e : α × S) : Res (ExpStR S α) :=
  let names1 := sinsert cur r.names
  let cn := indexOf cur names1
  let names2 := sinsert e.2 names1
  let tn := indexOf e.2 names2
  let trans1 := if tn ∈ r.states then r.trans else ainsert tn [] r.trans
  match alookup cn trans1 with
  | none => .error (.py .keyError)
  | some row =>
    .ok { trans := ainsert cn (ainsert e.1 tn row) trans1,
          states := sinsert tn r.states,
          finals := if isFin e.2 then sinsert tn r.finals else r.finals,
          queue := if e.2 ∈ r.visited then r.queue else r.queue ++ [e.2],
          visited := sinsert e.2 r.visited,
          names := names2 }

def expLoopRE (succE : S → Res (List (α × S))) (isFin : S → Bool) :
    Nat → ExpStR S α → Res (ExpStR S α)
  | 0, r => .ok r
  | fuel + 1, r =>
    match r.queue with
    | [] => .ok r
    | q :: work =>
      match succE q with
      | .error e => .error e
      | .ok es =>
        match foldlE (expEdgeRE isFin q) { r with queue := work } es with
        | .error e => .error e
        | .ok r' => expLoopRE succE isFin fuel r'

/-- Lines 1037–1041, 974/975 with `get_name(initial_state) = 0`. -/
def expInitR (isFin : S → Bool) (init : S) : ExpStR S α :=
  { trans := [(0, [])], states := [0], finals := if isFin init then [0] else [],
    queue := [init], visited := [init], names := [init] }

/-- `_expand_dfa(..., retain_names=False, minify=False)` (constructor call excluded). -/
def expandRenumE (succE : S → Res (List (α × S))) (isFin : S → Bool) (syms : List α) (fuel : Nat)
    (init : S) : Res (DFA Nat α) :=
  match expLoopRE succE isFin fuel (expInitR isFin init) with
  | .error e => .error e
  | .ok r =>
    .ok { states := r.states, syms := syms, trans := r.trans, init := 0, finals := r.finals,
          allowPartial := r.trans.any fun kv => kv.2.length != syms.length }

end DFA

namespace NFA
variable {σ α : Type} [DecidableEq σ] [DecidableEq α]

/-- `DFA.from_nfa(n, retain_names=False, minify=False)`. -/
def toDFARenumE (n : NFA σ α) : Res (DFA Nat α) :=
  bindE (n.closureE n.init) fun c0 =>
    DFA.expandRenumE n.subsetSuccE n.subsetFinal n.syms (2 ^ n.states.length + 1) (n.canon c0)

/-- `DFA.from_nfa(n)` with the default options `retain_names=False, minify=True` (the final
renaming of the blocks by `retain_names=False` inside `_minify` is the total model's). -/
def toDFAMinRenumE (n : NFA σ α) (pick : List Nat → Nat := fun _ => 0) :
    Res (DFA (DFA.MinName Nat) α) :=
  bindE n.toDFARenumE fun P => DFA.minifyCoreE P.states P.syms P.trans P.init P.finals pick

end NFA
end AV
