/-
Model/RxCompile.lean — postfix.py `parse_postfix_tokens` (instantiated with the token `op`/`val`
methods of parser.py), parser.py `parse_regex`, nfa.py `NFA.from_regex`, regex.py `validate`.
Lean core only.
-/
import AutomataVerif.Model.RxLexer
import AutomataVerif.Model.RxPostfix
import AutomataVerif.Model.RxBuilder

namespace AV.Rx
variable {α : Type} [DecidableEq α]

/-- `token.val()` of the two `Literal` classes. -/
def litVal (syms : List α) (t : Tok α) (c : Nat) : Res (Builder α × Nat) :=
  match t with
  | .str s => .ok (Builder.fromStringLiteral s c)
  | .wildcard => .ok (Builder.wildcard syms c)
  | _ => .error (.py .attributeError)

/-- `token.op(left)` of the `PostfixOperator` classes (`left.repeat(…)`). -/
def postfixOp (t : Tok α) (b : Builder α) (c : Nat) : Res (Builder α × Nat) :=
  match t with
  | .star => b.repeat_ 0 none c
  | .plus => b.repeat_ 1 none c
  | .opt => b.repeat_ 0 (some 1) c
  | .quant lo hi => b.repeat_ lo hi c
  | _ => .error (.py .typeError)

/-- `token.op(left, right)` of the `InfixOperator` classes. -/
def infixOp (t : Tok α) (l r : Builder α) (c : Nat) : Res (Builder α × Nat) :=
  match t with
  | .union => .ok (l.union r c)
  | .inter => .ok (l.intersection r c)
  | .shuffle => .ok (l.shuffle r c)
  | .concat => match l.concatenate r with
               | .error e => .error e
               | .ok b => .ok (b, c)
  | _ => .error (.py .typeError)

/-- `parse_postfix_tokens`: `stack` has its top at the head; the result is `stack[0]`, the
*bottom* of the deque. -/
def evalPostfix (syms : List α) :
    List (Tok α) → List (Builder α) → Nat → Res (Builder α × Nat)
  | [], stack, c =>
      match stack.getLast? with
      | some b => .ok (b, c)
      | none => .error (.py .indexError)
  | t :: ts, stack, c =>
      if t.base == .infixOp then
        match stack with
        | r :: l :: st =>
            match infixOp t l r c with
            | .error e => .error e
            | .ok (b, c') => evalPostfix syms ts (b :: st) c'
        | _ => .error (.py .indexError)
      else if t.base == .postfixOp then
        match stack with
        | l :: st =>
            match postfixOp t l c with
            | .error e => .error e
            | .ok (b, c') => evalPostfix syms ts (b :: st) c'
        | [] => .error (.py .indexError)
      else if t.base == .literal then
        match litVal syms t c with
        | .error e => .error e
        | .ok (b, c') => evalPostfix syms ts (b :: stack) c'
      else .error (.lib .invalidRegexError)      -- "Invalid token type"

/-- Everything `parse_regex` does after lexing. -/
def parseTokens (syms : List α) (ts : List (Tok α)) : Res (Builder α) :=
  if ts.isEmpty then .ok (Builder.fromStringLiteral [] 0).1      -- only blanks (fix 9e58d22)
  else match validateTokens ts with
    | .error e => .error e
    | .ok _ =>
        match tokensToPostfix (addConcat ts) with
        | .error e => .error e
        | .ok pf =>
            match evalPostfix syms pf [] 0 with
            | .error e => .error e
            | .ok (b, _) => .ok b

/-- `parse_regex(regexstr, input_symbols)`. -/
def parseRegex (s : List Char) (syms : List Char) : Res (Builder Char) :=
  if s.isEmpty then .ok (Builder.fromStringLiteral [] 0).1
  else match lex s with
    | .error e => .error e
    | .ok ts => parseTokens syms ts

def isReserved (c : Char) : Bool := Gen.Regex.reservedCharacters.contains c

/-- `frozenset(regex) - RESERVED_CHARACTERS`. -/
def defaultSyms (s : List Char) : List Char := dedup (s.filter fun c => !isReserved c)

/-- `NFA.from_regex(regex, input_symbols=…)`, including the constructor's `validate()`. -/
def fromRegex (s : List Char) (inputSymbols : Option (List Char)) : Res (NFA Nat Char) :=
  match (match inputSymbols with
         | none => (.ok (defaultSyms s) : Res (List Char))
         | some syms => if syms.any isReserved then .error (.lib .invalidSymbolError)
                        else .ok syms) with
  | .error e => .error e
  | .ok syms =>
      match parseRegex s syms with
      | .error e => .error e
      | .ok b =>
          let n := b.toNFA syms
          match n.validate with
          | .error e => .error e
          | .ok _ => .ok n

/-- `regex.validate(regex)`. -/
def validate (s : List Char) : Res Unit :=
  match lex s with
  | .error e => .error e
  | .ok ts => validateTokens ts

/-! ### regex.py `isequal`, `issubset`, `issuperset`

`NFA.__eq__` and `NFA.union` belong to other properties (C09, C08); here they are parameters:
`eq` is the equality test and `uni` the union operation the helpers call. -/

section compare
variable (eq : NFA Nat Char → NFA Nat Char → Bool)
variable (uni : NFA Nat Char → NFA Nat Char → NFA Nat Char)

/-- `isequal(re1, re2, input_symbols=…)`: `nfa1 == nfa2`. -/
def isequal (s1 s2 : List Char) (inputSymbols : Option (List Char)) : Res Bool :=
  match fromRegex s1 inputSymbols with
  | .error e => .error e
  | .ok n1 =>
    match fromRegex s2 inputSymbols with
    | .error e => .error e
    | .ok n2 => .ok (eq n1 n2)

/-- `issubset(re1, re2, input_symbols=…)`: `nfa1.union(nfa2) == nfa2`. -/
def issubset (s1 s2 : List Char) (inputSymbols : Option (List Char)) : Res Bool :=
  match fromRegex s1 inputSymbols with
  | .error e => .error e
  | .ok n1 =>
    match fromRegex s2 inputSymbols with
    | .error e => .error e
    | .ok n2 => .ok (eq (uni n1 n2) n2)

/-- `issuperset(re1, re2, input_symbols=…)`: `nfa1.union(nfa2) == nfa1`. -/
def issuperset (s1 s2 : List Char) (inputSymbols : Option (List Char)) : Res Bool :=
  match fromRegex s1 inputSymbols with
  | .error e => .error e
  | .ok n1 =>
    match fromRegex s2 inputSymbols with
    | .error e => .error e
    | .ok n2 => .ok (eq (uni n1 n2) n1)

end compare

end AV.Rx
