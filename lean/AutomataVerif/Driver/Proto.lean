/-
Driver/Proto.lean — line protocol shared by all driver executables (core only).

A request is one line: `CMD tok tok …` (tokens are integers or short keywords).
The answer is one line.  Automata travel as integers:

  DFA := n m o₁…o_m partial init |F| f… |T| (key k (a t)ᵏ)^|T|
  NFA := n m o₁…o_m init |F| f… |T| (key k (a |ts| t…)ᵏ)^|T|       (a = -1 is "")

states are 0..n-1 (index in the iteration order of the live Python set), symbols
are their rank in sorted order and `o₁…o_m` is the iteration order of the Python
`input_symbols` set; other integers are "foreign" names (used by validation tests).
Words: `|w| c…`.
-/
import AutomataVerif.Model.DFA
import AutomataVerif.Model.NFA

namespace AV.Proto

abbrev P := StateT (List String) (Except String)

def tok : P String := do
  match (← get) with
  | [] => throw "unexpected end of line"
  | t :: ts => set ts; pure t

def int : P Int := do
  let t ← tok
  match t.toInt? with
  | some i => pure i
  | none => throw s!"expected integer, got {t}"

def nat : P Nat := do
  let i ← int
  if i < 0 then throw s!"expected natural, got {i}" else pure i.toNat

def bool : P Bool := do
  let i ← int
  pure (i != 0)

def many {β : Type} (p : P β) : P (List β) := do
  let n ← nat
  let rec go : Nat → List β → P (List β)
    | 0, acc => pure acc.reverse
    | k + 1, acc => do let x ← p; go k (x :: acc)
  go n []

def manyN {β : Type} (n : Nat) (p : P β) : P (List β) :=
  let rec go : Nat → List β → P (List β)
    | 0, acc => pure acc.reverse
    | k + 1, acc => do let x ← p; go k (x :: acc)
  go n []

def optInt : P (Option Int) := do
  let t ← tok
  if t == "N" then pure none else
  match t.toInt? with
  | some i => pure (some i)
  | none => throw s!"expected integer or N, got {t}"

def word : P (List Int) := many int

def dfa : P (DFA Int Int) := do
  let n ← nat
  let m ← nat
  let order ← manyN m int
  let partial_ ← bool
  let init ← int
  let finals ← many int
  let trans ← many do
    let key ← int
    let row ← many do
      let a ← int
      let t ← int
      pure (a, t)
    pure (key, row)
  pure { states := (List.range n).map Int.ofNat, syms := order, trans := trans,
         init := init, finals := finals, allowPartial := partial_ }

def nfa : P (NFA Int Int) := do
  let n ← nat
  let m ← nat
  let order ← manyN m int
  let init ← int
  let finals ← many int
  let trans ← many do
    let key ← int
    let row ← many do
      let a ← int
      let ts ← many int
      pure ((if a == -1 then none else some a : Option Int), ts)
    pure (key, row)
  pure { states := (List.range n).map Int.ofNat, syms := order, trans := trans,
         init := init, finals := finals }

def done : P Unit := do
  match (← get) with
  | [] => pure ()
  | t :: _ => throw s!"trailing token {t}"

/-! ### printing -/

def showOpt : Option Int → String
  | none => "N"
  | some i => toString i

def showList {β : Type} (f : β → String) (l : List β) : String :=
  " ".intercalate (toString l.length :: l.map f)

def showInts (l : List Int) : String := showList toString l

/-- Sorted, duplicate-free rendering of a list used as a set of integers. -/
def insertSorted (x : Int) : List Int → List Int
  | [] => [x]
  | y :: t => if x < y then x :: y :: t else if x == y then y :: t else y :: insertSorted x t

def sortInts (l : List Int) : List Int := l.foldl (fun acc x => insertSorted x acc) []

def showSet (l : List Int) : String := showInts (sortInts l)

def showExn : Option Exn → String
  | none => "-"
  | some e => e.name

def showRes {β : Type} (f : β → String) : Res β → String
  | .ok v => "ok " ++ f v
  | .error e => "err " ++ e.name

def showBool (b : Bool) : String := if b then "1" else "0"

def showDFA (d : DFA Int Int) : String :=
  " ".intercalate [
    "DFA", showSet d.states, showSet d.syms, showBool d.allowPartial, toString d.init, showSet d.finals,
    showList (fun (kv : Int × List (Int × Int)) =>
      toString kv.1 ++ " " ++ showList (fun (e : Int × Int) => s!"{e.1} {e.2}") kv.2) d.trans]

def showNFA (n : NFA Int Int) : String :=
  " ".intercalate [
    "NFA", showSet n.states, showSet n.syms, toString n.init, showSet n.finals,
    showList (fun (kv : Int × List (Option Int × List Int)) =>
      toString kv.1 ++ " " ++ showList (fun (e : Option Int × List Int) =>
        (match e.1 with | none => "-1" | some a => toString a) ++ " " ++ showSet e.2) kv.2) n.trans]

/-- Run a handler table over stdin, one answer per line. -/
partial def loop (h : IO.FS.Stream) (out : IO.FS.Stream)
    (handle : String → List String → Except String String) : IO Unit := do
  let line ← h.getLine
  if line.isEmpty then return ()
  let toks := (line.trimAscii.toString.splitOn " ").filter (· ≠ "")
  match toks with
  | [] => out.putStrLn "bad-request empty"
  | cmd :: args =>
    match handle cmd args with
    | .ok s => out.putStrLn s
    | .error e => out.putStrLn s!"bad-request {e}"
  out.flush
  loop h out handle

def run (p : P String) (args : List String) : Except String String :=
  match (do let r ← p; done; pure r : P String).run args with
  | .ok (s, _) => .ok s
  | .error e => .error e

end AV.Proto
