/-
Driver/DfaQuery.lean — commands of drv_dfa_query (C13, C14, C20).  Core only.

  COUNT  <dfa> k                → v  levels(0..k) × states(0..n-1) counts
  WORDS  <dfa> k                → words  levels(0..k) × states word lists
  MINMAX <dfa>                  → min <res> max <res> empty b finite <res>
  CARD   <dfa>                  → card <res> len <res>     (len = the builtin: `err OverflowError` from 2^63 on)
  DAGLEN <edges> <V>            → N | longest path length   (`dagLongestPathLength` on the subgraph induced by V)
  ITER   <dfa> n maxLevels      → ok <words> <end> | err E
  RANDOM <dfa> k <choices>      → <res word>
  SUCCS  <dfa> <start> strict rev min max <keys> n fuel → words … end … first …
  HISTORY <dfa> n q…            → per query: answer ; state snapshot ; pure-agreement flag
                                  (queries: A C WO IO NX CARD LEN MIN MAX EMPTY FINITE RW SU FI SO CLR
                                   MINI TOP OT; SO opens a successors generator advanced by NX)

  NHISTORY <nfa> n q…           → per NFA query (A w | RD w | VC tag | OT tag): answer ; memo flag ; pure-agreement flag

Symbols are their rank in Python's (code point) order, so the natural order is `key = id`.
`<start>` is `N` or a word; `max` is `N` or a natural; `<keys>` lists the key value of every
symbol rank.
-/
import AutomataVerif.Model.NFACache
import AutomataVerif.Driver.Proto
import AutomataVerif.Model.DFACache
import AutomataVerif.Model.DFALen

namespace AV.Driver.DfaQuery
open AV AV.Proto AV.DFA

abbrev D := DFA Int Int

def natKey : Int → Int := fun a => a

def showWord (w : List Int) : String := showInts w
def showWords (ws : List (List Int)) : String := showList showWord ws

def stateList (d : D) : List Int := d.states

def optNat : P (Option Nat) := do
  let t ← tok
  if t == "N" then pure none else
  match t.toNat? with
  | some i => pure (some i)
  | none => throw s!"expected natural or N, got {t}"

def optWord : P (Option (List Int)) := do
  match (← get) with
  | "N" :: ts => set ts; pure none
  | _ => let w ← word; pure (some w)

def keyTable : P (Int → Int) := do
  let tbl ← many int
  pure fun a => if a < 0 then 0 else (tbl[a.toNat]?).getD 0

def showOptNat : Option Nat → String
  | none => "N"
  | some n => toString n

def cmdCount : P String := do
  let d ← dfa
  let k ← nat
  let levels := (List.range (k + 1)).map fun i =>
    showList (fun q => toString (cget (d.countLevel i) q)) (stateList d)
  pure (" ".intercalate [toString (d.countWordsOfLength k), showList id levels])

def cmdWords : P String := do
  let d ← dfa
  let k ← nat
  let levels := (List.range (k + 1)).map fun i =>
    showList (fun q => showWords (wget (d.wordLevel natKey i) q)) (stateList d)
  pure (" ".intercalate [showWords (d.wordsOfLength natKey k), showList id levels])

def cmdMinMax : P String := do
  let d ← dfa
  pure (" ".intercalate [
    "min", showRes toString d.minimumWordLength,
    "max", showRes showOptNat d.maximumWordLength,
    "empty", showBool d.isEmpty,
    "finite", showRes showBool d.isFinite])

def showLen : Except LenErr Nat → String
  | .ok n => "ok " ++ toString n
  | .error e => "err " ++ e.name

def cmdCard : P String := do
  let d ← dfa
  pure (" ".intercalate ["card", showRes toString d.cardinality, "len", showLen d.lenBuiltin])

/-- `nx.dag_longest_path_length(graph.subgraph(V))` through the contract function of the model
(`none` = `NetworkXUnfeasible`), on an arbitrary digraph given by its edge list. -/
def cmdDagLen : P String := do
  let edges ← many (do let u ← int; let v ← int; pure (u, v))
  let vs ← many int
  let g : Digraph Int := { nodes := vs, edges := edges }
  pure (showOptNat (dagLongestPathLength g.succ vs))

/-- First `n` words of `iter(dfa)`: run the loop for more and more bodies. -/
def iterFirst (d : D) (n maxLevels : Nat) : Res (List (List Int) × String) :=
  let rec go : Nat → Nat → Res (List (List Int) × String)
    | 0, lv =>
      match d.iterRun natKey lv with
      | .error e => .error e
      | .ok (ys, fin) =>
        if n ≤ ys.length then .ok (ys.take n, "paused")
        else if fin then .ok (ys, "finished") else .ok (ys, "outOfFuel")
    | f + 1, lv =>
      match d.iterRun natKey lv with
      | .error e => .error e
      | .ok (ys, fin) =>
        if n ≤ ys.length then .ok (ys.take n, "paused")
        else if fin then .ok (ys, "finished") else go f (lv + 1)
  go maxLevels 0

def cmdIter : P String := do
  let d ← dfa
  let n ← nat
  let maxLevels ← nat
  pure (showRes (fun (r : List (List Int) × String) => showWords r.1 ++ " " ++ r.2) (iterFirst d n maxLevels))

def cmdRandom : P String := do
  let d ← dfa
  let k ← nat
  let cs ← many nat
  pure (showRes showWord (d.randomWord k cs))

def showStatus : SuccStatus → String
  | .finished => "finished"
  | .outOfFuel => "outOfFuel"
  | .raised e => "raised " ++ e.name

def showGenEnd : GenEnd → String
  | .paused => "paused"
  | .finished => "finished"
  | .outOfFuel => "outOfFuel"
  | .raised e => "raised " ++ e.name

def showFirst : FirstResult Int → String
  | .word w => "word " ++ showWord w
  | .none => "none"
  | .outOfFuel => "outOfFuel"
  | .raised e => "raised " ++ e.name

def succArgs : P (Option (List Int) × SuccOpts × (Int → Int)) := do
  let start ← optWord
  let strict ← bool
  let rev ← bool
  let mn ← nat
  let mx ← optNat
  let key ← keyTable
  pure (start, { strict := strict, reverse := rev, minLen := mn, maxLen := mx }, key)

def cmdSuccs : P String := do
  let d ← dfa
  let (start, o, key) ← succArgs
  let n ← nat
  let fuel ← nat
  let r := d.successors key start o fuel
  let out := takeYields n r
  pure (" ".intercalate ["words", showWords out.1, "end", showGenEnd out.2,
    "first", showFirst (firstOf r)])

/-! ### HISTORY -/

def query : P (Query Int) := do
  let t ← tok
  match t with
  | "A" => let w ← word; pure (.accepts w)
  | "C" => let k ← nat; pure (.count k)
  | "WO" => let k ← nat; pure (.wordsOpen k)
  | "IO" => pure .iterOpen
  | "NX" => let h ← nat; let f ← nat; pure (.next h f)
  | "CARD" => pure .cardinality
  | "LEN" => pure .len
  | "MIN" => pure .minLen
  | "MAX" => pure .maxLen
  | "EMPTY" => pure .isEmpty
  | "FINITE" => pure .isFinite
  | "RW" => let k ← nat; let cs ← many nat; pure (.randomWord k cs)
  | "SU" => let (s, o, key) ← succArgs; let n ← nat; let f ← nat; pure (.succs key s o n f)
  | "FI" => let (s, o, key) ← succArgs; let f ← nat; pure (.first key s o f)
  | "SO" => let (s, o, key) ← succArgs; pure (.succOpen key s o)
  | "CLR" => pure .clearCache
  | "MINI" => let tag ← nat; pure (.minify tag)
  | "TOP" => let tag ← nat; pure (.toPartial tag)
  | "OT" => let tag ← nat; pure (.other tag)
  | _ => throw s!"unknown query {t}"

def showAns : Ans Int → String
  | .unit => "unit"
  | .bool b => "bool " ++ showBool b
  | .nat n => "nat " ++ toString n
  | .optNat m => "optnat " ++ showOptNat m
  | .word w => "word " ++ showWord w
  | .words ws e => "words " ++ showWords ws ++ " " ++ showGenEnd e
  | .firstWord r => "first " ++ showFirst r
  | .handle h => "handle " ++ toString h
  | .stop => "stop"
  | .outOfFuel => "outOfFuel"
  | .exn e => "exn " ++ e.name
  | .opaque t => "opaque " ++ toString t

def flag {β : Type} (o : Option β) : String := if o.isSome then "1" else "0"

def showInst (s : Inst Int Int) : String :=
  " ".intercalate ["S", toString s.counts.length, toString s.words.length,
    flag s.memo.digraph, flag s.memo.isempty, flag s.memo.isfinite, flag s.memo.cardinality,
    flag s.memo.minLen, flag s.memo.maxLen]

def showOpts (o : SuccOpts) : String :=
  " ".intercalate [showBool o.strict, showBool o.reverse, toString o.minLen, showOptNat o.maxLen]

/-- A printable signature of a generator object (a key function is shown by its values on the
alphabet), used to compare the generator tables of `step` and `stepPure` at run time. -/
def genSig (syms : List Int) : Gen Int Int → String
  | .wordsNew k => s!"wn {k}"
  | .wordsRun rest => "wr " ++ showWords rest
  | .iterNew => "in"
  | .iterRun i limit rest => s!"ir {i} {showOptNat limit} " ++ showWords rest
  | .succNew key input o =>
    "sn " ++ showInts (syms.map key) ++ " " ++ (match input with | none => "N" | some w => showWord w)
      ++ " " ++ showOpts o
  | .succRun o c st =>
    "sr " ++ showOpts o ++ " " ++ showInts c.coacc ++ " " ++ toString c.first ++ " "
      ++ showList (fun (e : Int × Option Int) => toString e.1 ++ ":" ++
            (match e.2 with | none => "N" | some b => toString b)) c.symSucc
      ++ " " ++ showList (fun (q : Option Int) => match q with | none => "N" | some b => toString b) st.states
      ++ " " ++ showWord st.chars ++ " " ++ (match st.cand with | none => "N" | some b => toString b)
      ++ " " ++ showBool st.shouldYield
  | .raising e => "ra " ++ e.name
  | .done => "dn"

def cmdHistory : P String := do
  let d ← dfa
  let qs ← many query
  let ext : Ext Int := { other := fun t => t, viaGraph := fun t _ => t }
  let rec go : List (Query Int) → Inst Int Int → List (Gen Int Int) → List String → List String
    | [], _, _, acc => acc.reverse
    | q :: qs, s, gens, acc =>
      let r := d.step natKey ext s q
      let p := d.stepPure natKey ext gens q
      let same := decide (r.2 = p.2) && decide (r.1.gens.map (genSig d.syms) = p.1.map (genSig d.syms))
      go qs r.1 p.1 ((showAns r.2 ++ " ; " ++ showInst r.1 ++ " ; " ++ showBool same) :: acc)
  pure (" | ".intercalate (go qs Inst.fresh [] []))

/-! ### NHISTORY (NFA instance: the `_get_lambda_closures` memo) -/

def nquery : P (NFA.NQuery Int) := do
  let t ← tok
  match t with
  | "A" => let w ← word; pure (.accepts w)
  | "RD" => let w ← word; pure (.readStepwise w)
  | "VC" => let tag ← nat; pure (.viaClosures tag)
  | "OT" => let tag ← nat; pure (.other tag)
  | _ => throw s!"unknown NFA query {t}"

def showNAns : NFA.NAns Int → String
  | .bool b => "bool " ++ showBool b
  | .exn e => "exn " ++ e.name
  | .configs cs e => "configs " ++ showList showSet cs ++ " " ++ showExn e
  | .opaque t => "opaque " ++ toString t

def cmdNHistory : P String := do
  let n ← nfa
  let qs ← many nquery
  let ext : NFA.NExt Int := { other := fun t => t, viaTable := fun t _ => t }
  let rec go : List (NFA.NQuery Int) → NFA.NInst Int → List String → List String
    | [], _, acc => acc.reverse
    | q :: qs, s, acc =>
      let r := n.nstep ext s q
      let same := decide (r.2 = n.nstepPure ext q)
      go qs r.1 ((showNAns r.2 ++ " ; " ++ flag r.1.closures ++ " ; " ++ showBool same) :: acc)
  pure (" | ".intercalate (go qs NFA.NInst.fresh []))

def handle (cmd : String) (args : List String) : Except String String :=
  match cmd with
  | "COUNT" => run cmdCount args
  | "WORDS" => run cmdWords args
  | "MINMAX" => run cmdMinMax args
  | "CARD" => run cmdCard args
  | "DAGLEN" => run cmdDagLen args
  | "ITER" => run cmdIter args
  | "RANDOM" => run cmdRandom args
  | "SUCCS" => run cmdSuccs args
  | "HISTORY" => run cmdHistory args
  | "NHISTORY" => run cmdNHistory args
  | "DFA_VALIDATE" => run (do let d ← dfa; pure (showRes (fun _ => "") d.validate)) args
  | "PING" => .ok "pong"
  | _ => .error s!"unknown command {cmd}"

end AV.Driver.DfaQuery
