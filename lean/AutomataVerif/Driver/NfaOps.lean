/-
Driver/NfaOps.lean — commands for C08 / C09 / C16 (core only).

Operands travel with an explicit state list (in the iteration order of the live Python
set), because `_get_state_maps` numbers states by position and `_add_new_state` looks for
the first natural number that is not a state:

  NFAX := n s₁…s_n m o₁…o_m init |F| f… |T| (key k (a |ts| t…)ᵏ)^|T|      (a = -1 is "")

The harness encodes a Python state name that is a natural number `k` as `k` and every
other name as a negative integer, so `Int.ofNat` is the embedding of Python's ints.

  NFA_OP <op> <NFAX A> [<NFAX B>]     → ok <arity> <NFA over arity-tuples> | err <Class>
  NFA_EQ <NFAX A> <NFAX B>            → impl <NI|fuel|0|1> eq <fuel|0|1> ne <fuel|0|1>   (A.__eq__(B), A == B, A != B)
  EDIT m o₁…o_m |ref| r… k ins del sub → ok 2 <NFA over pairs> | err <Class>
-/
import AutomataVerif.Driver.Proto
import AutomataVerif.Model.NFAOps
import AutomataVerif.Model.NFAEq
import AutomataVerif.Model.NFAEdit

namespace AV.Driver.NfaOps
open AV AV.Proto

def nfaX : P (NFA Int Int) := do
  let states ← many int
  let order ← many int
  let init ← int
  let finals ← many int
  let trans ← many do
    let key ← int
    let row ← many do
      let a ← int
      let ts ← many int
      pure ((if a == -1 then none else some a : Option Int), ts)
    pure (key, row)
  pure { states := states, syms := order, trans := trans, init := init, finals := finals }

/-- Print an NFA whose states are shown by `f` (a fixed number of integers each). -/
def showNFAg {τ : Type} (arity : Nat) (f : τ → String) (n : NFA τ Int) : String :=
  " ".intercalate [
    toString arity, showList f n.states, showInts n.syms, f n.init, showList f n.finals,
    showList (fun (kv : τ × List (Option Int × List τ)) =>
      f kv.1 ++ " " ++ showList (fun (e : Option Int × List τ) =>
        (match e.1 with | none => "-1" | some a => toString a) ++ " " ++ showList f e.2) kv.2) n.trans]

def show1 (q : Int) : String := toString q
def showN (q : Nat) : String := toString q
def show2 (q : Int × Int) : String := s!"{q.1} {q.2}"
def show3 (q : Int × Int × Bool) : String := s!"{q.1} {q.2.1} {showBool q.2.2}"
def showNN (q : Nat × Nat) : String := s!"{q.1} {q.2}"

def showResNFA {τ : Type} (arity : Nat) (f : τ → String) : Res (NFA τ Int) → String
  | .ok n => "ok " ++ showNFAg arity f n
  | .error e => "err " ++ e.name

def nfaOp : P String := do
  let op ← tok
  let a ← nfaX
  let nat : Nat → Int := Int.ofNat
  match op with
  | "kleene_star" => pure (showResNFA 1 show1 (NFA.kleeneStar nat a))
  | "option" => pure (showResNFA 1 show1 (NFA.option nat a))
  | "reverse" => pure (showResNFA 1 show1 (NFA.reverse nat a))
  | "eliminate_lambda" => pure (showResNFA 1 show1 (NFAElim.elim a))
  | _ =>
    let b ← nfaX
    match op with
    | "union" => pure (showResNFA 1 showN (a.union b))
    | "or" => pure (showResNFA 1 showN (a.orOp b))
    | "concatenate" => pure (showResNFA 1 showN (a.concatenate b))
    | "add" => pure (showResNFA 1 showN (a.addOp b))
    | "intersection" => pure (showResNFA 2 show2 (a.intersection b))
    | "and" => pure (showResNFA 2 show2 (a.andOp b))
    | "shuffle_product" => pure (showResNFA 2 show2 (a.shuffleProduct b))
    | "right_quotient" => pure (showResNFA 3 show3 (a.rightQuotient b))
    | "left_quotient" => pure (showResNFA 3 show3 (a.leftQuotient b))
    | _ => throw s!"unknown operation {op}"

def showEqRes : NFA.EqRes → String
  | .notImplemented => "NI"
  | .outOfFuel => "fuel"
  | .val b => showBool b

def showOptBool : Option Bool → String
  | none => "fuel"
  | some b => showBool b

def nfaEq : P String := do
  let a ← nfaX
  let b ← nfaX
  let pick₁ := HKG.nxPick (S := List Int ⊕ List Int) fun _ _ => true
  pure (" ".intercalate [
    "impl", showEqRes (NFA.eqImpl pick₁ a b),
    "eq", showOptBool (NFA.eqOp pick₁ pick₁ a b),
    "ne", showOptBool (NFA.neOp pick₁ pick₁ a b)])

def edit : P String := do
  let syms ← many int
  let ref ← many int
  let k ← int
  let ins ← bool
  let del ← bool
  let sub ← bool
  pure (showResNFA 2 showNN (NFA.editDistance syms ref k ins del sub))

def handle (cmd : String) (args : List String) : Except String String :=
  match cmd with
  | "NFA_OP" => run nfaOp args
  | "NFA_EQ" => run nfaEq args
  | "EDIT" => run edit args
  | "PING" => .ok "pong"
  | _ => .error s!"unknown command {cmd}"

end AV.Driver.NfaOps
