/-
Driver/DfaCtor.lean — commands for C15 (language constructors), one per constructor.

Symbols are integers: the rank of the character in the sorted list of all characters of the
case (alphabet, patterns, …), so that integer order = code-point order (`sorted(language)`).
`<syms>` = `m o₁…o_m` (iteration order of the live `input_symbols`), words = `|w| c…`,
optional arguments = `N` or the value.  Answer: `ok DFA …` | `err <Class>`.

  UNIV <syms> | EMPTY <syms>
  PREFIX <syms> <word> contains asPartial
  SUBSTRING <syms> <word> contains mustBeSuffix        SUFFIX <syms> <word> contains
  SUBSTRINGS <syms> k <word>ᵏ contains mustBeSuffix
  SUBSEQ <syms> <word> contains
  OFLEN <syms> min (N|max) (N | k c…)
  COUNTMOD <syms> k (N | r i…) (N | k c…)
  NTHSTART <syms> s n | NTHEND <syms> s n
  FINLANG <syms> k <word>ᵏ asPartial      (state names = index in the state list; compared up to isomorphism)
  KMPTABLE <word>                          (the internal table, for debugging only)
-/
import AutomataVerif.Driver.Proto
import AutomataVerif.Model.DfaCtor

namespace AV.Driver.DfaCtor
open AV AV.Proto AV.Ctor

def optMany {β : Type} (p : P β) : P (Option (List β)) := do
  match (← get) with
  | "N" :: ts => set ts; pure none
  | _ => let l ← many p; pure (some l)

def indexOf {β : Type} [DecidableEq β] (x : β) : List β → Nat
  | [] => 0
  | y :: t => if y = x then 0 else indexOf x t + 1

/-- Rename the states of a finite-language DFA to their index in the state list. -/
def flToInt (d : DFA (FLName Int) Int) : DFA Int Int :=
  let nm : FLName Int → Int := fun q => Int.ofNat (indexOf q d.states)
  { states := d.states.map nm, syms := d.syms,
    trans := d.trans.map fun kv => (nm kv.1, kv.2.map fun e => (e.1, nm e.2)),
    init := nm d.init, finals := d.finals.map nm, allowPartial := d.allowPartial }

def showD (r : Res (DFA Int Int)) : String := showRes showDFA r

def handle (cmd : String) (args : List String) : Except String String :=
  match cmd with
  | "UNIV" => run (do let s ← word; pure (showD (universalLanguage s))) args
  | "EMPTY" => run (do let s ← word; pure (showD (emptyLanguage s))) args
  | "PREFIX" => run (do
      let s ← word; let p ← word; let c ← bool; let ap ← bool
      pure (showD (fromPrefix s p c ap))) args
  | "SUBSTRING" => run (do
      let s ← word; let p ← word; let c ← bool; let sf ← bool
      pure (showD (fromSubstring s p c sf))) args
  | "SUFFIX" => run (do
      let s ← word; let p ← word; let c ← bool
      pure (showD (fromSuffix s p c))) args
  | "SUBSTRINGS" => run (do
      let s ← word; let ps ← many word; let c ← bool; let sf ← bool
      pure (showD (fromSubstrings s ps c sf))) args
  | "SUBSEQ" => run (do
      let s ← word; let p ← word; let c ← bool
      pure (showD (fromSubsequence s p c))) args
  | "OFLEN" => run (do
      let s ← word; let mn ← int; let mx ← optInt; let cnt ← optMany int
      pure (showD (ofLength s mn mx cnt))) args
  | "COUNTMOD" => run (do
      let s ← word; let k ← int; let r ← optMany int; let cnt ← optMany int
      pure (showD (countMod s k r cnt))) args
  | "NTHSTART" => run (do
      let s ← word; let a ← int; let n ← int
      pure (showD (nthFromStart s a n))) args
  | "NTHEND" => run (do
      let s ← word; let a ← int; let n ← int
      pure (showD (nthFromEnd s a n))) args
  | "FINLANG" => run (do
      let s ← word; let l ← many word; let ap ← bool
      let r := fromFiniteLanguage (fun a b => decide (a < b)) s l ap
      pure (showD (match r with | .ok d => .ok (flToInt d) | .error e => .error e))) args
  | "KMPTABLE" => run (do
      let p ← word
      pure (showRes showInts (kmpTable p))) args
  | "PING" => .ok "pong"
  | _ => .error s!"unknown command {cmd}"

end AV.Driver.DfaCtor
