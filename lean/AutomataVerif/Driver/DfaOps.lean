/-
Driver/DfaOps.lean — commands for C04–C07 (DFA operations, minimisation, comparisons,
conversions).  Automaton-valued results are printed in canonical form (BFS from the
initial state over sorted symbols) together with rendered state names, so that the
harness can compare up to isomorphism and, with retained names, the names as sets.
-/
import AutomataVerif.Driver.Proto
import AutomataVerif.Model.DFACompare
import AutomataVerif.Model.DFAEqPick
import AutomataVerif.Model.DFAComplement
import AutomataVerif.Model.Convert

namespace AV.Driver.DfaOps
open AV AV.Proto

/-! ### rendering of structured names -/

def insertStr (x : String) : List String → List String
  | [] => [x]
  | y :: t => if x < y then x :: y :: t else if x == y then y :: t else y :: insertStr x t

def sortStrs (l : List String) : List String := l.foldl (fun acc x => insertStr x acc) []

class Render (β : Type) where
  render : β → String

instance : Render Int := ⟨toString⟩
instance : Render Nat := ⟨toString⟩
instance {β : Type} [Render β] : Render (Option β) :=
  ⟨fun | none => "T" | some x => Render.render x⟩
instance {β γ : Type} [Render β] [Render γ] : Render (β × γ) :=
  ⟨fun p => "(" ++ Render.render p.1 ++ "," ++ Render.render p.2 ++ ")"⟩
instance {β : Type} [Render β] : Render (List β) :=
  ⟨fun l => "{" ++ ",".intercalate (sortStrs (l.map Render.render)) ++ "}"⟩
instance {β : Type} [Render β] : Render (DFA.MinName β) :=
  ⟨fun | .blk b => Render.render b | .zero => "Z"⟩

/-! ### canonical form -/

def insertBy {β : Type} (key : β → Int) (x : β) : List β → List β
  | [] => [x]
  | y :: t => if key x < key y then x :: y :: t else y :: insertBy key x t

def sortRow {S : Type} (row : List (Int × S)) : List (Int × S) :=
  row.foldl (fun acc e => insertBy (fun (e : Int × S) => e.1) e acc) []

/-- `CANON n partial |F| f… |E| (q a t)… NAMES n name…` for the reachable part. -/
def showCanon {S : Type} [DecidableEq S] [Render S] (d : DFA S Int) (withNames : Bool) : String :=
  let succ := fun s => sortRow (d.row s)
  let order := DFA.bfsStates succ (d.states.length + d.trans.length + 2) d.init
  let idx := fun s => indexOf s order
  let edges := order.flatMap fun s => (succ s).map fun e => s!"{idx s} {e.1} {idx e.2}"
  let fins := sortInts ((order.filter fun s => decide (s ∈ d.finals)).map fun s => Int.ofNat (idx s))
  " ".intercalate [
    "CANON", toString order.length, showBool d.allowPartial, showSet d.syms, showInts fins,
    toString edges.length, " ".intercalate edges,
    "UNREACHABLE", toString ((dedup d.states).filter fun s => decide (s ∉ order)).length,
    "NAMES", if withNames then showList Render.render order else "0"]

def binop : P DFA.BinOp := do
  match (← tok) with
  | "union" => pure .union
  | "inter" => pure .inter
  | "diff" => pure .diff
  | "symm" => pure .symm
  | t => throw s!"bad binop {t}"

/-- pseudo-random `pick` for the arbitrary `set.pop()` of `_minify`. -/
def pickOf (seed : Nat) : List Nat → Nat := fun l =>
  (l.foldl (fun h x => (h * 31 + x + 7) % 1000003) (seed + 1)) * (seed + 3)

def dfaBinop : P String := do
  let op ← binop
  let retain ← bool
  let minify ← bool
  let seed ← nat
  let A ← dfa
  let B ← dfa
  match minify, retain with
  | false, true =>
    match DFA.binopPlain op A B with
    | .error e => pure s!"err {e.name}"
    | .ok R => pure ("ok " ++ showCanon R true)
  | false, false =>
    match DFA.binopPlain op A B with
    | .error e => pure s!"err {e.name}"
    | .ok R => pure ("ok " ++ showCanon R.renumber false)
  | true, r =>
    match DFA.binopMin op A B (pickOf seed) with
    | .error e => pure s!"err {e.name}"
    | .ok R => pure ("ok " ++ showCanon R r)

def dfaMinify : P String := do
  let retain ← bool
  let seed ← nat
  let A ← dfa
  pure ("ok " ++ showCanon (A.minify (pickOf seed)) retain)

def dfaToPartial : P String := do
  let retain ← bool
  let minify ← bool
  let seed ← nat
  let A ← dfa
  if minify then pure ("ok " ++ showCanon (A.toPartialMin (pickOf seed)) retain)
  else pure ("ok " ++ showDFA A.toPartialPlain)

def dfaToComplete : P String := do
  let A ← dfa
  let trap ← int
  let custom ← bool
  pure (showRes showDFA (A.toComplete trap custom))

/-- `complement(retain_names, minify)`: executes `DFA.complementFull` / `DFA.complementMinFull`
(Model/DFAComplement.lean), the definitions `C04_complement` / `C04_complement_min` are about. -/
def dfaComplement : P String := do
  let retain ← bool
  let minify ← bool
  let seed ← nat
  let A ← dfa
  let trap ← int
  if minify then
    match A.complementMinFull trap (pickOf seed) with
    | .error e => pure s!"err {e.name}"
    | .ok R => pure ("ok " ++ showCanon R retain)
  else
    match A.complementFull trap with
    | .error e => pure s!"err {e.name}"
    | .ok R => pure ("ok " ++ showDFA R)

def dfaCmp : P String := do
  let A ← dfa
  let B ← dfa
  match A.compareAll B with
  | .error e => pure s!"err {e.name}"
  | .ok c => pure ("ok " ++ " ".intercalate
      ([c.eq, c.ne, c.le, c.lt, c.ge, c.gt, c.sub, c.sup, c.disj].map showBool))

def showEqRes : DFA.EqRes → String
  | .notImplemented => "NI"
  | .outOfFuel => "FUEL"
  | .val b => showBool b

/-- `==` through the pick-parametric Hopcroft–Karp loop: networkx's policy with both
tie-breaks, the two constant policies, and the fixed-direction `eqv`. -/
def dfaEqPick : P String := do
  let A ← dfa
  let B ← dfa
  pure (" ".intercalate [
    showEqRes (A.eqvNx (fun _ _ => true) B), showEqRes (A.eqvNx (fun _ _ => false) B),
    showEqRes (A.eqvPick (fun _ _ _ => true) B), showEqRes (A.eqvPick (fun _ _ _ => false) B),
    match A.eqv B with | none => "NI" | some b => showBool b])

def dfaEmptyFin : P String := do
  let A ← dfa
  pure (" ".intercalate [showBool A.isempty, showBool A.isfinite,
    showRes (fun (o : Option Nat) => match o with | none => "N" | some k => toString k) A.maxWordLength])

/-- `PART_REFINE items S₁ … S_k`: `PartitionRefinement(items)` followed by `refine(S₁)`, …,
`refine(S_k)`.  After every call: the partition (every block as a sorted set) and the returned
pairs, each pair rendered by the CONTENTS of the two blocks `(A ∩ S, A \ S)` (ids are `id(set)`
in Python, fresh counters in the model). -/
def partRefine : P String := do
  let items ← many int
  let sets ← many (many int)
  let step := fun (acc : DFA.Part Int × List String) (S : List Int) =>
    let r := acc.1.refine S
    let p := r.1
    (p, acc.2 ++ ["STEP", showList (fun (b : Nat × List Int) => showSet b.2) p.blocks,
      showList (fun (pr : Nat × Nat) => showSet (p.get pr.1) ++ " " ++ showSet (p.get pr.2)) r.2])
  let r := sets.foldl step (DFA.Part.init items, [])
  pure (" ".intercalate ("ok" :: showList (fun (b : Nat × List Int) => showSet b.2) (DFA.Part.init items).blocks :: r.2))

def fromNfa : P String := do
  let retain ← bool
  let minify ← bool
  let seed ← nat
  let N ← nfa
  match minify, retain with
  | false, true => pure ("ok " ++ showCanon N.toDFA true)
  | false, false => pure ("ok " ++ showCanon N.toDFA.renumber false)
  | true, true => pure ("ok " ++ showCanon (N.toDFAMin (pickOf seed)) true)
  | true, false => pure ("ok " ++ showCanon (N.toDFAMinRenum (pickOf seed)) false)

def handle (cmd : String) (args : List String) : Except String String :=
  match cmd with
  | "DFA_BINOP" => run dfaBinop args
  | "DFA_MINIFY" => run dfaMinify args
  | "DFA_TO_PARTIAL" => run dfaToPartial args
  | "DFA_TO_COMPLETE" => run dfaToComplete args
  | "DFA_COMPLEMENT" => run dfaComplement args
  | "DFA_CMP" => run dfaCmp args
  | "DFA_EQ_PICK" => run dfaEqPick args
  | "DFA_EMPTYFIN" => run dfaEmptyFin args
  | "DFA_FROM_NFA" => run fromNfa args
  | "PART_REFINE" => run partRefine args
  | "NFA_FROM_DFA" => run (do let d ← dfa; pure ("ok " ++ showNFA (NFA.ofDFA d))) args
  | "NFA_ELIM" => run (do let n ← nfa; pure ("ok " ++ showNFA n.eliminateLambda)) args
  | "PING" => .ok "pong"
  | _ => .error s!"unknown command {cmd}"

end AV.Driver.DfaOps
