/-
Driver/Pda.lean — commands for C02 (pushdown automata), core only.

  PDA   := n m s init initStack |F| f… mode |T| (q |row| (a |sp| (X entry)…)…)…
           states 0..n-1, input symbols 0..m-1 (a = -1 is ""), stack symbols 0..s-1;
           other integers are foreign names; mode is the acceptance-mode literal itself
  entry := p |push| y…                      (DPDA)
         | |set| (p |push| y…)…             (NPDA)
  runs  := k (fuel cap |w| c…)ᵏ            (cap: level-size budget of NPDA runs, see `NPDA.guardedRun`)

  NPDA_RUN <npda> <runs>      → valid <res> runs k (levels n (m cfg…)ⁿ out <o> read <r> acc <a>)ᵏ
  DPDA_RUN <dpda> <runs>      → valid <res> runs k (trace n cfg…ⁿ out <o> read <r> acc <a>)ᵏ
  DPDA_LIFT_RUN <dpda> <runs> → as NPDA_RUN on `DPDA.lift`
  NPDA_VALIDATE <npda> / DPDA_VALIDATE <dpda> → ok | err <class>
  cfg := q |input| a… |stack| y…            (stack bottom first)
  o   := returned | raised <class> | fuel
-/
import AutomataVerif.Driver.Proto
import AutomataVerif.Model.PDA

namespace AV.Driver.Pda
open AV AV.Proto AV.PDA

def push : P (Int × List Int) := do
  let p ← int
  let ys ← many int
  pure (p, ys)

def table {τ : Type} (entry : P τ) : P (Table Int Int Int τ) := do
  let n ← nat
  let m ← nat
  let s ← nat
  let init ← int
  let initStack ← int
  let finals ← many int
  let mode ← tok
  let trans ← many do
    let q ← int
    let row ← many do
      let a ← int
      let sp ← many do
        let x ← int
        let e ← entry
        pure (x, e)
      pure ((if a == -1 then none else some a : Option Int), sp)
    pure (q, row)
  pure { states := (List.range n).map Int.ofNat, inputSyms := (List.range m).map Int.ofNat,
         stackSyms := (List.range s).map Int.ofNat, trans := trans, init := init,
         initStack := initStack, finals := finals, mode := mode }

def dpda : P (DPDA Int Int Int) := table push
def npda : P (NPDA Int Int Int) := table (many push)

def runs : P (List (Nat × Nat × List Int)) := many do
  let f ← nat
  let cap ← nat
  let w ← word
  pure (f, cap, w)

def showCfg (c : Config Int Int Int) : String :=
  " ".intercalate [toString c.state, showInts c.input, showInts c.stack]

def showLevel (l : List (Config Int Int Int)) : String := showList showCfg l

def showOutcome : Outcome → String
  | .returned => "returned"
  | .raised e => "raised " ++ e.name
  | .outOfFuel => "fuel"

def showOptRes {β : Type} (f : β → String) : Option (Res β) → String
  | none => "N"
  | some r => showRes f r

def showNRun (r : List (List (Config Int Int Int)) × Outcome) : String :=
  " ".intercalate ["levels", showList showLevel r.1, "out", showOutcome r.2,
    "read", showOptRes showLevel (readInput r), "acc", showOptRes showBool (acceptsInput r)]

def showDRun (r : List (Config Int Int Int) × Outcome) : String :=
  " ".intercalate ["trace", showList showCfg r.1, "out", showOutcome r.2,
    "read", showOptRes showCfg (readInput r), "acc", showOptRes showBool (acceptsInput r)]

def npdaRun : P String := do
  let M ← npda
  let rs ← runs
  pure (" ".intercalate ["valid", showRes (fun _ => "") M.validate, "runs",
    showList (fun (fw : Nat × Nat × List Int) => showNRun (M.guardedReadStepwise fw.2.1 fw.1 fw.2.2)) rs])

def dpdaRun : P String := do
  let M ← dpda
  let rs ← runs
  pure (" ".intercalate ["valid", showRes (fun _ => "") M.validate, "runs",
    showList (fun (fw : Nat × Nat × List Int) => showDRun (M.readStepwise (fun _ => true) fw.1 fw.2.2)) rs])

def dpdaLiftRun : P String := do
  let M ← dpda
  let rs ← runs
  pure (" ".intercalate ["valid", showRes (fun _ => "") M.lift.validate, "runs",
    showList (fun (fw : Nat × Nat × List Int) => showNRun (M.lift.guardedReadStepwise fw.2.1 fw.1 fw.2.2)) rs])

def handle (cmd : String) (args : List String) : Except String String :=
  match cmd with
  | "NPDA_RUN" => run npdaRun args
  | "DPDA_RUN" => run dpdaRun args
  | "DPDA_LIFT_RUN" => run dpdaLiftRun args
  | "NPDA_VALIDATE" => run (do let M ← npda; pure (showRes (fun _ => "") M.validate)) args
  | "DPDA_VALIDATE" => run (do let M ← dpda; pure (showRes (fun _ => "") M.validate)) args
  | "PING" => .ok "pong"
  | _ => .error s!"unknown command {cmd}"

end AV.Driver.Pda
