/-
Driver/Misc.lean — commands for C18 / C19 (core only).

  VALIDATE_DFA <res> <dfa> | VALIDATE_NFA <res> <nfa>           → ok | err <Class>
  VALIDATE_DPDA | _NPDA <e> <def>                               → ok | err <Class>
  VALIDATE_GNFA | _DTM | _NTM | _MNTM <def>                     → ok | err <Class>
  CONSTRUCT <CLASS> <shouldValidate> <allowMutable> <def>        → ok | err <Class>
  FREEZE <pyval>            → <pyval> frozen <0/1> supported <0/1> norm <pyval> normfz <pyval>
  SETATTR / DELATTR         → err AttributeError
  NEW <mutable> <cls> <kwargs>      → ok <cls> <params> | err <Class>     (input_parameters of cls(**kwargs))
  COPY <m0> <m1> <cls> <kwargs>     → input_parameters of cls(**kwargs).copy(), built under m0, copied under m1
  PICKLE <m0> <m1> <cls> <kwargs>   → same through __getstate__/__setstate__

Wire formats (all integers unless noted; states 0..n-1, foreign names ≥ 1000):
  res  := none empty   the state number that is Python's `None` and the symbol number that is the
          empty string (any number that is not used, e.g. -9, when the definition has no such name);
          e := the stack-symbol number that is the empty string (likewise)
  GNFA := n m o₁…o_m init final |T| (key k (target label)ᵏ)^|T|
          label := -1 (None) | len c… v ;  c ≥ 0 input symbol / other character,
          c = -2-i the i-th of * | ( ) ? ;  v = 1/0 (re._validate) or 2 (LexerError escapes)
  DPDA := n m o… g s₁…s_g init initStack |F| f… mode |T| (key k (a j (γ target |p| p…)ʲ)ᵏ)^|T|
  NPDA := … (a j (γ r (target |p| p…)ʳ)ʲ)ᵏ
  DTM  := n |Σ| Σ… |Γ| Γ… init blank |F| f… |T| (key k (γ target w dir)ᵏ)^|T|
  NTM  := … (γ r (target w dir)ʳ)ᵏ
  MNTM := n |Σ| Σ… |Γ| Γ… nTapes init blank |F| f… |T| (key k (|rd| rd… nres (target |mv| (w dir)…)ⁿʳᵉˢ)ᵏ)^|T|
  a = -1 is ""; dir 0/1/2 = L/N/R, other = not a direction; mode 0/1/2 = final_state/empty_stack/both
  pyval := s <tok> | i <int> | o <nat> | d k (pyval pyval)ᵏ | S k pyvalᵏ | l k … | D k … | F k … | t k …
  kwargs := k (name pyval)ᵏ      (names are raw identifier tokens)
-/
import AutomataVerif.Driver.Proto
import AutomataVerif.Model.ValidateAll
import AutomataVerif.Model.Instance

namespace AV.VA.Driver
open AV AV.Proto

def states (n : Nat) : List Int := (List.range n).map Int.ofNat

def optSym : P (Option Int) := do
  let a ← int
  pure (if a == -1 then none else some a)

def dirOf (i : Int) : String :=
  if i == 0 then "L" else if i == 1 then "N" else if i == 2 then "R" else s!"dir{i}"

def modeOf (i : Int) : String :=
  if i == 0 then "final_state" else if i == 1 then "empty_stack" else if i == 2 then "both"
  else s!"mode{i}"

def extraChars : List String := ["*", "|", "(", ")", "?"]

def gchar : P (GChar Int) := do
  let c ← int
  if c ≥ 0 then pure (.sym c)
  else pure (.extra (extraChars.getD ((-2 - c).toNat) s!"extra{c}"))

def glabel : P (Option (GLabel Int)) := do
  let len ← int
  if len < 0 then pure none else
  let cs ← manyN len.toNat gchar
  let v ← int
  let verdict : RegexVerdict :=
    if v == 1 then .valid else if v == 0 then .invalid else .lexerError
  pure (some { chars := cs, verdict := verdict })

def gnfa : P (GNFA Int Int) := do
  let n ← nat
  let m ← nat
  let order ← manyN m int
  let init ← int
  let final ← int
  let trans ← many do
    let key ← int
    let row ← many do
      let t ← int
      let l ← glabel
      pure (t, l)
    pure (key, row)
  pure { states := states n, syms := order, trans := trans, init := init, final := final }

def push : P (List Int) := many int

def dpda : P (DPDA Int Int Int) := do
  let n ← nat
  let m ← nat
  let order ← manyN m int
  let stackSyms ← many int
  let init ← int
  let initStack ← int
  let finals ← many int
  let mode ← int
  let trans ← many do
    let key ← int
    let row ← many do
      let a ← optSym
      let ent ← many do
        let g ← int
        let t ← int
        let p ← push
        pure (g, (t, p))
      pure (a, ent)
    pure (key, row)
  pure { states := states n, syms := order, stackSyms := stackSyms, trans := trans, init := init,
         initStack := initStack, finals := finals, mode := modeOf mode }

def npda : P (NPDA Int Int Int) := do
  let n ← nat
  let m ← nat
  let order ← manyN m int
  let stackSyms ← many int
  let init ← int
  let initStack ← int
  let finals ← many int
  let mode ← int
  let trans ← many do
    let key ← int
    let row ← many do
      let a ← optSym
      let ent ← many do
        let g ← int
        let rs ← many do
          let t ← int
          let p ← push
          pure (t, p)
        pure (g, rs)
      pure (a, ent)
    pure (key, row)
  pure { states := states n, syms := order, stackSyms := stackSyms, trans := trans, init := init,
         initStack := initStack, finals := finals, mode := modeOf mode }

def tmResult : P (TMResult Int Int) := do
  let t ← int
  let w ← int
  let d ← int
  pure (t, w, dirOf d)

def dtm : P (DTM Int Int) := do
  let n ← nat
  let syms ← many int
  let tape ← many int
  let init ← int
  let blank ← int
  let finals ← many int
  let trans ← many do
    let key ← int
    let row ← many do
      let g ← int
      let r ← tmResult
      pure (g, r)
    pure (key, row)
  pure { states := states n, syms := syms, tapeSyms := tape, trans := trans, init := init,
         blank := blank, finals := finals }

def ntm : P (NTM Int Int) := do
  let n ← nat
  let syms ← many int
  let tape ← many int
  let init ← int
  let blank ← int
  let finals ← many int
  let trans ← many do
    let key ← int
    let row ← many do
      let g ← int
      let rs ← many tmResult
      pure (g, rs)
    pure (key, row)
  pure { states := states n, syms := syms, tapeSyms := tape, trans := trans, init := init,
         blank := blank, finals := finals }

def mntm : P (MNTM Int Int) := do
  let n ← nat
  let syms ← many int
  let tape ← many int
  let nTapes ← int
  let init ← int
  let blank ← int
  let finals ← many int
  let trans ← many do
    let key ← int
    let row ← many do
      let rd ← many int
      let rs ← many do
        let t ← int
        let mv ← many do
          let w ← int
          let d ← int
          pure (w, dirOf d)
        pure (t, mv)
      pure (rd, rs)
    pure (key, row)
  pure { states := states n, syms := syms, tapeSyms := tape, nTapes := nTapes, trans := trans,
         init := init, blank := blank, finals := finals }

/-- The interpretation of the protocol integers sent with a DFA / NFA definition. -/
def reserved : P (Reserved Int Int) := do
  let noneState ← int
  let emptySym ← int
  pure ⟨(· == noneState), (· == emptySym)⟩

def emptyStackSym : P (Int → Bool) := do
  let e ← int
  pure (· == e)

def showUnit (r : Res Unit) : String := (showRes (fun _ => "") r).trimAscii.toString

/-! ### Python values -/

partial def pyval : P PyVal := do
  let k ← tok
  match k with
  | "s" => do let t ← tok; pure (.str t)
  | "i" => do let i ← int; pure (.int i)
  | "o" => do let n ← nat; pure (.other n)
  | "d" => do let kvs ← many (do let a ← pyval; let b ← pyval; pure (a, b)); pure (.dict kvs)
  | "D" => do let kvs ← many (do let a ← pyval; let b ← pyval; pure (a, b)); pure (.frozendict kvs)
  | "S" => do let xs ← many pyval; pure (.set xs)
  | "F" => do let xs ← many pyval; pure (.frozenset xs)
  | "l" => do let xs ← many pyval; pure (.list xs)
  | "t" => do let xs ← many pyval; pure (.tuple xs)
  | "V" => do let xs ← many pyval; pure (.setlike xs)
  | "Q" => do let xs ← many pyval; pure (.seqlike xs)
  | "M" => do let kvs ← many (do let a ← pyval; let b ← pyval; pure (a, b)); pure (.maplike kvs)
  | _ => throw s!"bad pyval tag {k}"

partial def showPy : PyVal → String
  | .str s => s!"s {s}"
  | .int i => s!"i {i}"
  | .other n => s!"o {n}"
  | .dict kvs => "d " ++ showList (fun (kv : PyVal × PyVal) => showPy kv.1 ++ " " ++ showPy kv.2) kvs
  | .frozendict kvs => "D " ++ showList (fun (kv : PyVal × PyVal) => showPy kv.1 ++ " " ++ showPy kv.2) kvs
  | .set xs => "S " ++ showList showPy xs
  | .frozenset xs => "F " ++ showList showPy xs
  | .list xs => "l " ++ showList showPy xs
  | .tuple xs => "t " ++ showList showPy xs
  | .setlike xs => "V " ++ showList showPy xs
  | .seqlike xs => "Q " ++ showList showPy xs
  | .maplike kvs => "M " ++ showList (fun (kv : PyVal × PyVal) => showPy kv.1 ++ " " ++ showPy kv.2) kvs

def kwargs : P (List (String × PyVal)) := many do
  let name ← tok
  let v ← pyval
  pure (name, v)

def showParams (ps : List (String × PyVal)) : String :=
  showList (fun (kv : String × PyVal) => kv.1 ++ " " ++ showPy kv.2) ps

def showInst (r : Res Inst) : String :=
  match r with
  | .error e => "err " ++ e.name
  | .ok o =>
    match Obj.inputParameters o with
    | .error e => "err " ++ e.name
    | .ok ps => "ok " ++ o.cls ++ " " ++ showParams ps ++ " attrs " ++ showParams o.attrs

def freezeCmd : P String := do
  let v ← pyval
  let f := v.freeze
  pure (" ".intercalate [showPy f, "frozen", showBool f.isFrozen, "supported", showBool v.supported,
    "norm", showPy v.norm, "normfz", showPy f.norm])

def newCmd : P String := do
  let m ← bool
  let cls ← tok
  let kw ← kwargs
  pure (showInst (Obj.classInit m cls kw))

def copyCmd (viaPickle : Bool) : P String := do
  let m0 ← bool
  let m1 ← bool
  let cls ← tok
  let kw ← kwargs
  match Obj.classInit m0 cls kw with
  | .error e => pure ("err " ++ e.name)
  | .ok o => pure (showInst (if viaPickle then Obj.pickleRoundTrip m1 o else Obj.copy m1 o))

def constructCmd : P String := do
  let cls ← tok
  let sv ← bool
  let am ← bool
  let r : Res Unit ←
    match cls with
    | "DFA" => do
        let R ← reserved; let d ← dfa
        pure ((construct id id (DFA.validateDef R) false sv am d).map fun _ => ())
    | "NFA" => do
        let R ← reserved; let d ← nfa
        pure ((construct id id (NFA.validateDef R) false sv am d).map fun _ => ())
    | "GNFA" => do let d ← gnfa; pure ((construct id id GNFA.validate true sv am d).map fun _ => ())
    | "DPDA" => do
        let e ← emptyStackSym; let d ← dpda
        pure ((construct id id (DPDA.validateDef e) false sv am d).map fun _ => ())
    | "NPDA" => do
        let e ← emptyStackSym; let d ← npda
        pure ((construct id id (NPDA.validateDef e) false sv am d).map fun _ => ())
    | "DTM" => do let d ← dtm; pure ((construct id id DTM.validate false sv am d).map fun _ => ())
    | "NTM" => do let d ← ntm; pure ((construct id id NTM.validate false sv am d).map fun _ => ())
    | "MNTM" => do let d ← mntm; pure ((construct id id MNTM.validate false sv am d).map fun _ => ())
    | _ => throw s!"unknown class {cls}"
  pure (showUnit r)

def handle (cmd : String) (args : List String) : Except String String :=
  match cmd with
  | "VALIDATE_DFA" => run (do let R ← reserved; let d ← dfa; pure (showUnit (DFA.validateDef R d))) args
  | "VALIDATE_NFA" => run (do let R ← reserved; let d ← nfa; pure (showUnit (NFA.validateDef R d))) args
  | "VALIDATE_GNFA" => run (do let d ← gnfa; pure (showUnit d.validate)) args
  | "VALIDATE_DPDA" => run (do let e ← emptyStackSym; let d ← dpda; pure (showUnit (d.validateDef e))) args
  | "VALIDATE_NPDA" => run (do let e ← emptyStackSym; let d ← npda; pure (showUnit (d.validateDef e))) args
  | "VALIDATE_DTM" => run (do let d ← dtm; pure (showUnit d.validate)) args
  | "VALIDATE_NTM" => run (do let d ← ntm; pure (showUnit d.validate)) args
  | "VALIDATE_MNTM" => run (do let d ← mntm; pure (showUnit d.validate)) args
  | "CONSTRUCT" => run constructCmd args
  | "FREEZE" => run freezeCmd args
  | "SETATTR" => .ok (showInst (Inst.setattr { cls := "", attrs := [] } "" (.int 0)))
  | "DELATTR" => .ok (showInst (Inst.delattr { cls := "", attrs := [] } ""))
  | "NEW" => run newCmd args
  | "COPY" => run (copyCmd false) args
  | "PICKLE" => run (copyCmd true) args
  | "PING" => .ok "pong"
  | _ => .error s!"unknown command {cmd}"

end AV.VA.Driver
