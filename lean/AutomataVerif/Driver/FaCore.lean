/-
Driver/FaCore.lean — commands for C01 (reading a DFA / NFA).
  DFA_READ <dfa> <word> <isStr>  →  trace, terminating exception, read_input, accepts_input, `in`
  NFA_READ <nfa> <word> <isStr>
  DFA_READ_IGNORE <dfa> <word>   →  trace and terminating exception of
                                    read_input_stepwise(word, ignore_rejection=True)
  DFA_VALIDATE <dfa> / NFA_VALIDATE <nfa> → ok | err <class>
-/
import AutomataVerif.Driver.Proto

namespace AV.Driver.FaCore
open AV AV.Proto

def dfaRead : P String := do
  let d ← dfa
  let w ← word
  let (tr, ex) := d.readStepwise w
  let ri := d.readInput w
  let ai := d.acceptsInput w
  let c1 := d.contains (some w)
  let c2 := d.contains none
  pure (" ".intercalate [
    "trace", showList showOpt tr, "exn", showExn ex,
    "read", showRes showOpt ri, "acc", showRes showBool ai,
    "in", showRes showBool c1, "in_nonstr", showRes showBool c2,
    "valid", showRes (fun _ => "") d.validate])

def dfaReadIgnore : P String := do
  let d ← dfa
  let w ← word
  let (tr, ex) := d.readStepwise w true
  pure (" ".intercalate ["trace", showList showOpt tr, "exn", showExn ex])

def nfaRead : P String := do
  let n ← nfa
  let w ← word
  let (tr, ex) := n.readStepwise w
  let ri := n.readInput w
  let ai := n.acceptsInput w
  let c1 := n.contains (some w)
  let c2 := n.contains none
  pure (" ".intercalate [
    "trace", showList showSet tr, "exn", showExn ex,
    "read", showRes showSet ri, "acc", showRes showBool ai,
    "in", showRes showBool c1, "in_nonstr", showRes showBool c2,
    "valid", showRes (fun _ => "") n.validate])

def nfaClosures : P String := do
  let n ← nfa
  pure (showList (fun q => toString q ++ " " ++ showSet (n.closure q)) n.states)

def handle (cmd : String) (args : List String) : Except String String :=
  match cmd with
  | "DFA_READ" => run dfaRead args
  | "NFA_READ" => run nfaRead args
  | "DFA_READ_IGNORE" => run dfaReadIgnore args
  | "NFA_CLOSURES" => run nfaClosures args
  | "DFA_VALIDATE" => run (do let d ← dfa; pure (showRes (fun _ => "") d.validate)) args
  | "NFA_VALIDATE" => run (do let n ← nfa; pure (showRes (fun _ => "") n.validate)) args
  | "PING" => .ok "pong"
  | _ => .error s!"unknown command {cmd}"

end AV.Driver.FaCore
