/-
Driver/Gnfa.lean — commands for C12 (state elimination) and GNFA validation (core only).

Encodings (on top of Driver/Proto.lean):
  STR   := |s| cp…                                   (code points)
  LABEL := N | S STR
  GNFA  := n m cp₁…cp_m init final |T| (key k (to LABEL)ᵏ)^|T|     states are 0..n-1
  DFA / NFA as in Proto, symbols are code points (not ranks)
  NATMAP := |t| id…      id of the Python ints 0,1,2,… among the state names (`_add_new_state`)

  GNFA_FROM_DFA <DFA> <NATMAP>        → ok <GNFA-out> | err <Class>
  GNFA_FROM_NFA <NFA> <NATMAP>        → ok <GNFA-out> | err <Class>
  GNFA_TO_REGEX <GNFA> |rips| q…      → ok rips |r| q… LABEL | err <Class>    (ties broken towards the given rips)
  GNFA_TO_REGEX_ALL <GNFA>            → |R| (ok LABEL | err <Class>)…          (every tie-break)
  GNFA_VALIDATE <GNFA>                → ok | err <Class>
  ISBRACKET STR                       → 0 | 1
  RX_VALID STR                        → ok 0|1 | err <Class>      (`re._validate` = C10's lexer + validate_tokens)
  RX_VALID_SIMPLE STR                 → ok 0|1 | err <Class>      (the stand-alone model `simpleRxValid`)

The validator run by the constructors and by GNFA_VALIDATE is `GNFA.reValidate` (Model/GNFARe.lean),
the model of `re._validate` shared with C10/C11; `simpleRxValid`, which the theorems of Props/C12.lean
mention, is proved equal to it on strings without `{` (Proofs/GnfaReValidate.lean).
-/
import AutomataVerif.Driver.Proto
import AutomataVerif.Model.GNFARe

namespace AV.Driver.Gnfa
open AV AV.Proto

def chr (i : Int) : Char := Char.ofNat i.toNat

def str : P Str := do
  let cps ← many nat
  pure (cps.map Char.ofNat)

def label : P (Option Str) := do
  let t ← tok
  if t == "N" then pure none
  else if t == "S" then do let s ← str; pure (some s)
  else throw s!"expected label, got {t}"

def gnfa : P (GNFA Int Str) := do
  let n ← nat
  let m ← nat
  let syms ← manyN m nat
  let init ← int
  let final ← int
  let trans ← many do
    let key ← int
    let row ← many do
      let t ← int
      let l ← label
      pure (t, l)
    pure (key, row)
  pure { states := (List.range n).map Int.ofNat, syms := syms.map Char.ofNat, trans := trans,
         init := init, final := final }

def natMap : P (Nat → Int) := do
  let t ← many int
  pure fun k => (t[k]?).getD (100000 + k)

def dfaC : P (DFA Int Char) := do
  let d ← dfa
  pure { states := d.states, syms := d.syms.map chr,
         trans := d.trans.map fun kv => (kv.1, kv.2.map fun e => (chr e.1, e.2)),
         init := d.init, finals := d.finals, allowPartial := d.allowPartial }

def nfaC : P (NFA Int Char) := do
  let n ← nfa
  pure { states := n.states, syms := n.syms.map chr,
         trans := n.trans.map fun kv => (kv.1, kv.2.map fun e => (e.1.map chr, e.2)),
         init := n.init, finals := n.finals }

def showStr (s : Str) : String := showList (fun (c : Char) => toString c.toNat) s

def showLabel : Option Str → String
  | none => "N"
  | some s => "S " ++ showStr s

def showGnfa (g : GNFA Int Str) : String :=
  " ".intercalate [
    "GNFA", showSet g.states, toString g.init, toString g.final,
    showList (fun (kv : Int × List (Int × Option Str)) =>
      toString kv.1 ++ " " ++ showList (fun (e : Int × Option Str) =>
        toString e.1 ++ " " ++ showLabel e.2) kv.2) g.trans]

def handle (cmd : String) (args : List String) : Except String String :=
  match cmd with
  | "GNFA_FROM_DFA" => run (do
      let d ← dfaC
      let nm ← natMap
      pure (showRes showGnfa (GNFA.fromDFA GNFA.reValidate nm d))) args
  | "GNFA_FROM_NFA" => run (do
      let n ← nfaC
      let nm ← natMap
      pure (showRes showGnfa (GNFA.fromNFA GNFA.reValidate nm n))) args
  | "GNFA_TO_REGEX" => run (do
      let g ← gnfa
      let rips ← many int
      let r := GNFA.toRegexTrace GNFA.ripLabel g (GNFA.frontOrd rips)
      pure (showRes (fun (x : List Int × Option Str) =>
        "rips " ++ showInts x.1 ++ " " ++ showLabel x.2) r)) args
  | "GNFA_TO_REGEX_ALL" => run (do
      let g ← gnfa
      pure (showList (showRes showLabel) (GNFA.toRegexAll g))) args
  | "GNFA_VALIDATE" => run (do
      let g ← gnfa
      pure (showRes (fun _ => "") (g.validateStr GNFA.reValidate))) args
  | "ISBRACKET" => run (do
      let s ← str
      pure (showBool (GNFA.isBracketReq s))) args
  | "RX_VALID" => run (do
      let s ← str
      pure (showRes showBool (GNFA.reValidate s))) args
  | "RX_VALID_SIMPLE" => run (do
      let s ← str
      pure (showRes showBool (simpleRxValid s))) args
  | "PING" => .ok "pong"
  | _ => .error s!"unknown command {cmd}"

end AV.Driver.Gnfa
