/-
Driver/Tm.lean — commands for C03 / C17 (Turing machines), σ := Int, Γ := Char.

Symbols travel as Unicode code points; states as integers; directions 0=L 1=R 2=N 3=other.

  DTM  := |S| s… |I| a… |G| g… init blank |F| f… |T| (key k (sym q' s' d)^k)^|T|
  NTM  := … same header …               |T| (key k (sym |R| (q' s' d)^|R|)^k)^|T|
  MNTM := |S| s… |I| a… |G| g… ntapes init blank |F| f…
                                         |T| (key k (|key| sym… |R| (q' |mv| (s' d)^|mv|)^|R|)^k)^|T|
  word := |w| c…

  DTM_STEPS   <dtm>  <word> n brief → yields … end …     (n = number of next() calls)
  NTM_LEVELS  <ntm>  <word> n brief
  MNTM_VISIT  <mntm> <word> n brief
  ASNTM_STEPS <mntm> <word> n brief                       (read_input_as_ntm, hd='^', sep='_')
  DTM_VALIDATE / NTM_VALIDATE / MNTM_VALIDATE <machine>   → ok | err <class>
  READ_EXT <word>                                         → ok |h| c… | err <class>
  cfg  := state pos |cells| c…
  mcfg := state |tapes| (pos |cells| c…)…
  sim  := state pos |tape| c…
-/
import AutomataVerif.Driver.Proto
import AutomataVerif.Model.TM
import AutomataVerif.Model.TMValidate
import AutomataVerif.Model.TMSim

namespace AV.Driver.Tm
open AV AV.Proto AV.TM

def sym : P Char := do
  let n ← nat
  pure (Char.ofNat n)

def dir : P Dir := do
  let n ← nat
  pure (match n with | 0 => .L | 1 => .R | 2 => .N | _ => .bad)

def result : P (Int × Char × Dir) := do
  let q ← int
  let s ← sym
  let d ← dir
  pure (q, s, d)

def dtm : P (DTM Int Char) := do
  let states ← many int
  let isy ← many sym
  let tsy ← many sym
  let init ← int
  let blank ← sym
  let finals ← many int
  let trans ← many do
    let key ← int
    let row ← many do
      let s ← sym
      let r ← result
      pure (s, r)
    pure (key, row)
  pure { states := states, inputSyms := isy, tapeSyms := tsy, trans := trans, init := init,
         blank := blank, finals := finals }

def ntm : P (NTM Int Char) := do
  let states ← many int
  let isy ← many sym
  let tsy ← many sym
  let init ← int
  let blank ← sym
  let finals ← many int
  let trans ← many do
    let key ← int
    let row ← many do
      let s ← sym
      let rs ← many result
      pure (s, rs)
    pure (key, row)
  pure { states := states, inputSyms := isy, tapeSyms := tsy, trans := trans, init := init,
         blank := blank, finals := finals }

def mntm : P (MNTM Int Char) := do
  let states ← many int
  let isy ← many sym
  let tsy ← many sym
  let nt ← nat
  let init ← int
  let blank ← sym
  let finals ← many int
  let trans ← many do
    let key ← int
    let row ← many do
      let k ← many sym
      let rs ← many do
        let q ← int
        let mv ← many do
          let s ← sym
          let d ← dir
          pure (s, d)
        pure (q, mv)
      pure (k, rs)
    pure (key, row)
  pure { states := states, inputSyms := isy, tapeSyms := tsy, nTapes := nt, trans := trans,
         init := init, blank := blank, finals := finals }

def wordC : P (List Char) := many sym

def showChars (l : List Char) : String := showList (fun c => toString c.toNat) l

def showTape (t : Tape Char) : String := s!"{t.pos} {showChars t.cells}"

def showCfg (c : Cfg Int Char) : String := s!"{c.state} {showTape c.tape}"

def showMCfg (c : MCfg Int Char) : String := s!"{c.state} {showList showTape c.tapes}"

def showSim (e : SimEntry Int Char) : String := s!"{e.1} {e.2.2} {showChars e.2.1}"

def showEnd : GenEnd → String
  | .returned => "ret"
  | .running => "run"
  | .raised e => "raise " ++ e.name

def showRun {β : Type} (f : β → String) (brief : Bool) (r : List β × GenEnd) : String :=
  if brief then s!"count {r.1.length} end {showEnd r.2}"
  else s!"yields {showList f r.1} end {showEnd r.2}"

def handle (cmd : String) (args : List String) : Except String String :=
  match cmd with
  | "DTM_STEPS" => run (do
      let m ← dtm; let w ← wordC; let n ← nat; let b ← bool
      pure (showRun showCfg b (m.readStepwise w n))) args
  | "NTM_LEVELS" => run (do
      let m ← ntm; let w ← wordC; let n ← nat; let b ← bool
      pure (showRun (showList showCfg) b (m.readStepwise w n))) args
  | "MNTM_VISIT" => run (do
      let m ← mntm; let w ← wordC; let n ← nat; let b ← bool
      pure (showRun showMCfg b (m.readStepwise w n))) args
  | "ASNTM_STEPS" => run (do
      let m ← mntm; let w ← wordC; let n ← nat; let b ← bool
      pure (showRun showSim b (simStepwise m '^' '_' w n))) args
  | "DTM_VALIDATE" => run (do let m ← dtm; pure (showRes (fun _ => "") m.validate)) args
  | "NTM_VALIDATE" => run (do let m ← ntm; pure (showRes (fun _ => "") m.validate)) args
  | "MNTM_VALIDATE" => run (do let m ← mntm; pure (showRes (fun _ => "") m.validate)) args
  | "READ_EXT" => run (do
      let w ← wordC
      pure (showRes showChars (readExtended '^' '_' w))) args
  | "PING" => .ok "pong"
  | _ => .error s!"unknown command {cmd}"

end AV.Driver.Tm
