/-
Driver/Regex.lean — commands for C10 / C11.

  strings:  `|s| cp…` (code points);  alphabets: `N` (default) or `k cp…`

  RX_LEX <s>               → ok <toks> | err <Class>
  RX_POSTFIX <s>           → lex <res toks> valid <res> concat <toks> postfix <res toks>
  RX_VALIDATE <s>          → ok | err <Class>
  RX_COMPILE <s> <Σ>       → ok NFA … | err <Class>      (symbols are code points)
  RX_PIPE <s> <Σ>          → validate <res> compile <res nstates>
  RX_PIPE2 <s> <Σ>         → validate <res> compile <res nstates> compile_sigma <res nstates>
                             (compile = default alphabet, compile_sigma = the given alphabet)
  RX_CMP <s1> <s2> <Σ>     → ok eq sub sup chk <same|differ|budget> | err <Class>
                             eq/sub/sup = the MODEL helpers `Rx.isequal (eqLib …)`,
                             `Rx.issubset (eqLib …) uniLib`, `Rx.issuperset (eqLib …) uniLib`
                             (Model/RxCompile.lean + Model/RxCompare.lean: the terms of
                             `C11_comparisons_lib`); chk = cross-check of the three answers
                             against a driver-side subset search on the two compiled NFAs

tokens print as  LP RP U I S ST PL OP Q:lo:hi CC L:cp,cp… W .
-/
import AutomataVerif.Driver.Proto
import AutomataVerif.Model.RxCompile
import AutomataVerif.Model.RxCompare

namespace AV.Driver.Regex
open AV AV.Proto AV.Rx

def str : P (List Char) := do
  let cps ← many nat
  pure (cps.map Char.ofNat)

def optSyms : P (Option (List Char)) := do
  match (← get) with
  | "N" :: ts => set ts; pure none
  | _ => do let s ← str; pure (some s)

def showTok : Tok Char → String
  | .lparen => "LP" | .rparen => "RP" | .union => "U" | .inter => "I" | .shuffle => "S"
  | .star => "ST" | .plus => "PL" | .opt => "OP"
  | .quant lo hi => s!"Q:{lo}:{match hi with | none => "N" | some h => toString h}"
  | .concat => "CC"
  | .str s => "L:" ++ ",".intercalate (s.map fun c => toString c.toNat)
  | .wildcard => "W"

def showToks (ts : List (Tok Char)) : String := showList showTok ts

def toIntNFA (n : NFA Nat Char) : NFA Int Int :=
  { states := n.states.map Int.ofNat, syms := n.syms.map fun c => Int.ofNat c.toNat,
    trans := n.trans.map fun kv => (Int.ofNat kv.1, kv.2.map fun e =>
      (e.1.map fun c => Int.ofNat c.toNat, e.2.map Int.ofNat)),
    init := Int.ofNat n.init, finals := n.finals.map Int.ofNat }

def rxLex : P String := do
  let s ← str
  pure (showRes showToks (lex s))

def rxPostfix : P String := do
  let s ← str
  let lx := lex s
  match lx with
  | .error _ => pure ("lex " ++ showRes showToks lx)
  | .ok ts =>
    let withc := addConcat ts
    pure (" ".intercalate [
      "lex", showRes showToks lx, "valid", showRes (fun _ => "") (validateTokens ts),
      "concat", showToks withc, "postfix", showRes showToks (tokensToPostfix withc)])

def rxCompile : P String := do
  let s ← str
  let sy ← optSyms
  pure (showRes (fun n => showNFA (toIntNFA n)) (fromRegex s sy))

def rxPipe : P String := do
  let s ← str
  let sy ← optSyms
  pure (" ".intercalate [
    "validate", showRes (fun _ => "") (Rx.validate s),
    "compile", showRes (fun n => toString n.states.length) (fromRegex s sy)])

def rxPipe2 : P String := do
  let s ← str
  let sy ← optSyms
  pure (" ".intercalate [
    "validate", showRes (fun _ => "") (Rx.validate s),
    "compile", showRes (fun n => toString n.states.length) (fromRegex s none),
    "compile_sigma", showRes (fun n => toString n.states.length) (fromRegex s sy)])

/-! Language comparison of two compiled NFAs by on-the-fly determinisation of the product
(driver-side CROSS-CHECK for RX_CMP only; not part of the verified model — the answers of RX_CMP
come from the model helpers). -/

def normSet (l : List Nat) : List Nat :=
  (sortInts (l.map Int.ofNat)).map Int.toNat

/-- Is there a word accepted by `a` and not by `b`?  BFS over pairs of subset states, at most
`fuel` expansions (`none` = budget exhausted). -/
def findDiff (a b : NFA Nat Char) (syms : List Char) :
    Nat → List (List Nat × List Nat) → List (List Nat × List Nat) → Option Bool
  | 0, _, _ => none
  | _ + 1, [], _ => some false
  | fuel + 1, (s1, s2) :: rest, seen =>
      if a.anyFinal s1 && !b.anyFinal s2 then some true
      else
        let succs := syms.map fun c => (normSet (a.nextStates s1 c), normSet (b.nextStates s2 c))
        let new := dedup (succs.filter fun p => !(seen.contains p))
        findDiff a b syms fuel (rest ++ new) (seen ++ new)

def langSubset (a b : NFA Nat Char) : Option Bool :=
  let syms := dedup (a.syms ++ b.syms)
  let s0 := (normSet (a.closure a.init), normSet (b.closure b.init))
  (findDiff a b syms 400 [s0] [s0]).map (!·)

def rxCmp : P String := do
  let s1 ← str
  let s2 ← str
  let sy ← optSyms
  -- the model of regex.py's helpers, instantiated with the models of `==` (C09) and `union` (C08)
  let eq := eqLib drvPick drvPick
  match Rx.isequal eq s1 s2 sy, Rx.issubset eq uniLib s1 s2 sy, Rx.issuperset eq uniLib s1 s2 sy with
  | .ok e, .ok sub, .ok sup =>
    -- cross-check only: unverified subset search on the two compiled NFAs
    let chk :=
      match fromRegex s1 sy, fromRegex s2 sy with
      | .ok n1, .ok n2 =>
        match langSubset n1 n2, langSubset n2 n1 with
        | some xsub, some xsup =>
            if (xsub && xsup) == e && xsub == sub && xsup == sup then "same" else "differ"
        | _, _ => "budget"
      | _, _ => "differ"
    pure (" ".intercalate ["ok", showBool e, showBool sub, showBool sup, "chk", chk])
  | .error e, _, _ => pure ("err " ++ e.name)
  | _, .error e, _ => pure ("err " ++ e.name)
  | _, _, .error e => pure ("err " ++ e.name)

def handle (cmd : String) (args : List String) : Except String String :=
  match cmd with
  | "RX_LEX" => run rxLex args
  | "RX_POSTFIX" => run rxPostfix args
  | "RX_VALIDATE" => run (do let s ← str; pure (showRes (fun _ => "") (Rx.validate s))) args
  | "RX_COMPILE" => run rxCompile args
  | "RX_PIPE" => run rxPipe args
  | "RX_PIPE2" => run rxPipe2 args
  | "RX_CMP" => run rxCmp args
  | "PING" => .ok "pong"
  | _ => .error s!"unknown command {cmd}"

end AV.Driver.Regex
