-- Driver executable drv_tm (C03, C17): Turing machines.
import AutomataVerif.Driver.Tm
def main : IO Unit := do
  AV.Proto.loop (← IO.getStdin) (← IO.getStdout) AV.Driver.Tm.handle
