import AutomataVerif.Driver.Regex
def main : IO Unit := do
  AV.Proto.loop (← IO.getStdin) (← IO.getStdout) AV.Driver.Regex.handle
