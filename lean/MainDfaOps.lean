import AutomataVerif.Driver.DfaOps
def main : IO Unit := do
  AV.Proto.loop (← IO.getStdin) (← IO.getStdout) AV.Driver.DfaOps.handle
