import AutomataVerif.Driver.FaCore
def main : IO Unit := do
  AV.Proto.loop (← IO.getStdin) (← IO.getStdout) AV.Driver.FaCore.handle
