import AutomataVerif.Driver.Misc
def main : IO Unit := do
  AV.Proto.loop (← IO.getStdin) (← IO.getStdout) AV.VA.Driver.handle
