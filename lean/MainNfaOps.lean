import AutomataVerif.Driver.NfaOps
def main : IO Unit := do
  AV.Proto.loop (← IO.getStdin) (← IO.getStdout) AV.Driver.NfaOps.handle
