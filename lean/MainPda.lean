import AutomataVerif.Driver.Pda
def main : IO Unit := do
  AV.Proto.loop (← IO.getStdin) (← IO.getStdout) AV.Driver.Pda.handle
