-- Driver executable drv_gnfa (C12: GNFA construction, state elimination, GNFA validation).
import AutomataVerif.Driver.Gnfa
def main : IO Unit := do
  AV.Proto.loop (← IO.getStdin) (← IO.getStdout) AV.Driver.Gnfa.handle
