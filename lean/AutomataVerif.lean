-- Root of the library: every module that `lake build` must check.
import AutomataVerif.Model.Basic
import AutomataVerif.Model.DFA
import AutomataVerif.Model.NFA
import AutomataVerif.Driver.Proto
import AutomataVerif.Driver.FaCore
import AutomataVerif.Proofs.Basic
import AutomataVerif.Proofs.Validate
import AutomataVerif.Proofs.Read
import AutomataVerif.Props.C01
