"""Replays of the defects repaired by `fix:` commits in /repo (DESIGN.md §8).
Each function returns (ok: bool, detail).  ok=True means the property holds on this input.
Run:  PYTHONPATH=/repo /venv/bin/python fixes/repro.py
"""
import sys
from automata.fa.dfa import DFA
from automata.fa.nfa import NFA
from automata.fa.gnfa import GNFA
from automata.pda.dpda import DPDA
from automata.pda.npda import NPDA
from automata.tm.mntm import MNTM
import automata.base.exceptions as ex


def F1():
    d = DFA(states={0, 1, 2, 3}, input_symbols={"a", "b"},
            transitions={0: {"a": 3, "b": 2}, 1: {"a": 1}, 2: {"a": 3, "b": 0}, 3: {"a": 1, "b": 2}},
            initial_state=0, final_states={2}, allow_partial=True)
    m = d.minify()
    return (m.accepts_input("aab") == d.accepts_input("aab"), f"orig={d.accepts_input('aab')} minified={m.accepts_input('aab')}")


def F19():
    x = "x"
    d = DFA(states={x, 0, 2, -1, -2}, input_symbols={"a", "b"},
            transitions={x: {"b": 0}, 2: {"a": -2, "b": 2}, 0: {"a": 2, "b": 0}, -2: {"a": x, "b": x}, -1: {"a": 2, "b": 0}},
            initial_state=x, final_states={x}, allow_partial=True)
    try:
        m = d.minify()
    except Exception as e:
        return (False, f"minify raised {type(e).__name__}")
    bad = [w for w in ("", "b", "ba", "baa", "baab", "baaba", "bab") if m.accepts_input(w) != d.accepts_input(w)]
    return (not bad, f"words with different verdict: {bad}")


def F2():
    d = DFA(states={0, 1}, input_symbols={"a"}, transitions={0: {"a": 1}, 1: {"a": 1}},
            initial_state=0, final_states={0})  # language {""}
    d2 = DFA(states={0}, input_symbols={"a"}, transitions={0: {}}, initial_state=0, final_states={0}, allow_partial=True)
    try:
        r1 = list(d2.predecessors("aaaa", strict=False, max_length=0))
        r2 = list(d2.predecessors("", strict=False))
    except Exception as e:
        return (False, f"raised {type(e).__name__}")
    return (r1 == [""] and r2 == [""], f"{r1} {r2}")


def F3():
    try:
        r = list(DFA.empty_language({"a"}))
    except Exception as e:
        return (False, f"raised {type(e).__name__}")
    return (r == [], str(r))


def F4():
    a = NFA.from_regex("a{0,0}")
    b = NFA.from_regex("a{,0}")
    return (not a.accepts_input("a") and not b.accepts_input("a") and a.accepts_input("") and
            NFA.from_regex("a{4,}").accepts_input("aaaa") and not NFA.from_regex("a{4,}").accepts_input("aaa"),
            f"a{{0,0}} accepts 'a': {a.accepts_input('a')}")


def F5():
    import automata.regex.regex as re
    try:
        re.validate(" ")
    except Exception as e:
        return (True, "validate rejects")
    try:
        n = NFA.from_regex(" ")
    except Exception as e:
        return (False, f"validates but compile raised {type(e).__name__}")
    return (n.accepts_input("") and not n.accepts_input(" "), "compiles")


def F6():
    A = NFA(states={0, 1}, input_symbols={"a"}, transitions={0: {"a": {1}}}, initial_state=0, final_states={1})
    B = NFA(states={0}, input_symbols={"a"}, transitions={}, initial_state=0, final_states=set())
    try:
        q = A.left_quotient(B)
    except Exception as e:
        return (False, f"raised {type(e).__name__}")
    return (not q.accepts_input("") and not q.accepts_input("a"), "ok")


def F7():
    kw = dict(states={"q0", "q1"}, input_symbols={"a"}, stack_symbols={"Z"}, initial_state="q0",
              initial_stack_symbol="Z", final_states={"q0"}, acceptance_mode="final_state")
    d = DPDA(transitions={"q0": {"": {"Z": ("q1", ("Z",))}}}, **kw)
    n = NPDA(transitions={"q0": {"": {"Z": {("q1", ("Z",))}}}}, **kw)
    return (d.accepts_input("") == n.accepts_input(""), f"dpda={d.accepts_input('')} npda={n.accepts_input('')}")


def F8():
    out = []
    n1 = NFA(states={0, 1, 2}, input_symbols={"a"}, transitions={0: {"": {1, 2}}, 1: {"": {2}}}, initial_state=0, final_states={2})
    n2 = NFA(states={"s", "t", "u"}, input_symbols={"a"}, transitions={"s": {"a": {"s", "t"}}, "t": {"": {"u"}}},
             initial_state="s", final_states={"t", "u"})
    ok = True
    for n in (n1, n2):
        r = GNFA.from_nfa(n).to_regex()
        try:
            back = NFA.from_regex(r, input_symbols={"a"})
        except Exception as e:
            ok = False
            out.append(f"{r!r} does not parse ({type(e).__name__})")
            continue
        if back != n:
            ok = False
            out.append(f"{r!r} denotes another language")
    return (ok, "; ".join(out))


def F9():
    m = MNTM(states={"q0", "q1", "q2"}, input_symbols={"1"}, tape_symbols={"1", "#"}, n_tapes=1,
             transitions={"q0": {("1",): [("q1", (("1", "L"),))]}, "q1": {("#",): [("q2", (("#", "R"),))]}},
             initial_state="q0", blank_symbol="#", final_states={"q2"})
    native = m.accepts_input("1")
    try:
        for _ in m.read_input_as_ntm("1"):
            pass
        sim = True
    except ex.RejectionException:
        sim = False
    except Exception as e:
        return (False, f"native={native} simulation raised {type(e).__name__}")
    return (native == sim, f"native={native} sim={sim}")


def F11():
    m = MNTM(states={"q0", "q1"}, input_symbols={"1"}, tape_symbols={"1", "#"}, n_tapes=1,
             transitions={"q0": {("1",): []}}, initial_state="q0", blank_symbol="#", final_states={"q1"})
    try:
        r = m.accepts_input("1")
    except Exception as e:
        return (False, f"raised {type(e).__name__}")
    return (r is False, str(r))


def F12():
    A = NFA(states={0}, input_symbols={"a"}, transitions={0: {"a": {0}}, 7: {"a": {0}}}, initial_state=0, final_states={0})
    B = NFA(states={0, 1}, input_symbols={"a"}, transitions={0: {"a": {1}}}, initial_state=0, final_states={1})
    n = NFA(states={0, 1, 2, 4}, input_symbols={"a", "b"},
            transitions={0: {"a": {1}}, 1: {"a": {2}, "b": {1, 2}}, 2: {}, 3: {"a": {2}, "b": {2}}},
            initial_state=0, final_states={2})
    try:
        A.union(B); B.union(A); A.concatenate(B); A.reverse()
        r = n.reverse()
    except Exception as e:
        return (False, f"raised {type(e).__name__}")
    return (r.accepts_input("aaa") == n.accepts_input("aaa"), f"reverse accepts 'aaa': {r.accepts_input('aaa')}")


def _raises(f, *classes):
    try:
        f()
    except classes as e:
        return True, f"raises {type(e).__name__}"
    except Exception as e:  # noqa
        return False, f"raises {type(e).__name__}: {e}"
    return False, "accepted"


def F12b():
    n = NFA(states={0, 1, 2}, input_symbols={"a"}, transitions={0: {"": {1}}, 1: {"a": {1}}, 5: {"a": {2}}},
            initial_state=0, final_states={1})
    try:
        r = n.eliminate_lambda()
        r.validate()
    except Exception as e:  # noqa
        return (False, f"eliminate_lambda raised {type(e).__name__}")
    return (r.accepts_input("aa") == n.accepts_input("aa"), "eliminate_lambda returns a valid NFA for the same language")


def F20():
    return _raises(lambda: GNFA(states={0, 1}, input_symbols={"a", "b"}, transitions={1: {0: None, 1: "a"}},
                                initial_state=1, final_state=1), ex.InvalidStateError, ex.MissingStateError)


def F21():
    J = DFA(states={0}, input_symbols={"a"}, transitions={0: {}, -1: {"a": 0}}, initial_state=0, final_states={0},
            allow_partial=True)
    E = DFA.empty_language({"a"})
    u = E.union(J)
    return (not u.accepts_input("aa"), f"E.union(J) accepts 'aa': {u.accepts_input('aa')}")


def F10a():
    try:
        d = DFA.from_suffix({"a", "b"}, "")
    except Exception as e:  # noqa
        return (False, f"from_suffix(Σ, '') raised {type(e).__name__}")
    return (all(d.accepts_input(w) for w in ("", "a", "ab")), "from_suffix(Σ, '') accepts every string")


def F10b():
    d = DFA.from_substrings({"a", "b", "c"}, {"", "cab"}, contains=False, must_be_suffix=True)
    return (not d.accepts_input("c"), f"accepts 'c': {d.accepts_input('c')}")


def F22():
    d = DFA.from_substrings({"a", "b"}, ["cc", "ab"])
    return (not d.accepts_input("a") and d.accepts_input("ab"), f"accepts 'a': {d.accepts_input('a')}")


def F27():
    return _raises(lambda: DFA(states={None, 0}, input_symbols={"a"}, transitions={None: {"a": 0}, 0: {"a": None}},
                               initial_state=0, final_states={None}), ex.InvalidStateError)


def F28():
    return _raises(lambda: NFA(states={0}, input_symbols={"", "a"}, transitions={0: {"a": {0}}}, initial_state=0,
                               final_states={0}), ex.InvalidSymbolError)


def F29():
    return _raises(lambda: NPDA(states={0}, input_symbols={"a"}, stack_symbols={"", "Z"},
                                transitions={0: {"a": {"": {(0, "Z")}}}}, initial_state=0, initial_stack_symbol="Z",
                                final_states={0}, acceptance_mode="final_state"), ex.InvalidSymbolError)


def F30():
    moves = [["1", "R"]]
    m = MNTM(states={"q0", "q1"}, input_symbols={"1"}, tape_symbols={"1", "#"}, n_tapes=1,
             transitions={"q0": {("1",): [("q1", moves)]}}, initial_state="q0", blank_symbol="#", final_states={"q1"})
    moves[0][1] = "L"
    stored = m.transitions["q0"][("1",)][0][1][0][1]
    return (stored == "R", f"stored direction after mutating the argument: {stored}")


def F15():
    a = DFA.of_length({"a"}, min_length=3, max_length=1)
    b = DFA.of_length({"a", "b"}, min_length=2, max_length=3, symbols_to_count={"c"})
    return (len(a.states) == 1 and len(b.states) == 1, f"{len(a.states)} and {len(b.states)} states (minimal: 1 and 1)")


def F33():
    return _raises(lambda: DFA(states={0, 1}, input_symbols={"a"}, transitions={0: {"a": 1}, 1: {"a": 1}, None: {"a": 0}},
                               initial_state=0, final_states={1}), ex.InvalidStateError)


def F36():
    from collections import defaultdict
    import automata.base.config as cfg
    cfg.allow_mutable_automata = True
    try:
        t = defaultdict(dict, {"q0": defaultdict(list, {("1",): [("q1", (("1", "R"),))]})})
        m = MNTM(states={"q0", "q1"}, input_symbols={"1"}, tape_symbols={"1", "."}, n_tapes=1, transitions=t,
                 initial_state="q0", blank_symbol=".", final_states={"q1"})
        try:
            list(m.read_input_as_ntm(""))
        except ex.RejectionException:
            pass
        return (set(t["q0"]) == {("1",)}, f"rows of q0 after the read: {sorted(t['q0'])}")
    finally:
        cfg.allow_mutable_automata = False


def F37():
    import types
    import collections
    out = []
    fin = {1: None}
    d = DFA(states={0, 1}, input_symbols={"a"}, transitions={0: {"a": 1}, 1: {"a": 1}}, initial_state=0,
            final_states=fin.keys())
    before = d.accepts_input("")
    fin[0] = None
    if d.accepts_input("") != before or not isinstance(d.final_states, frozenset):
        out.append(f"final_states=fin.keys(): stored as {type(d.final_states).__name__}, accepts_input('') {before} -> {d.accepts_input('')}")
    rows = {0: {"a": 1}, 1: {"a": 1}}
    for name, table in (("MappingProxyType", types.MappingProxyType(rows)), ("UserDict", collections.UserDict(rows))):
        e = DFA(states={0, 1}, input_symbols={"a"}, transitions=table, initial_state=0, final_states={1})
        if type(e.transitions).__name__ != "frozendict":
            out.append(f"transitions={name}(...): stored as {type(e.transitions).__name__}")
    return (not out, "; ".join(out) or "views / proxies are converted to frozenset / frozendict")


def F37b():
    import collections
    from automata.tm.mntm import MNTM
    out = []
    for name, mk in (("UserList", collections.UserList), ("deque", collections.deque)):
        dq = mk([("q1", (("1", "R"),))])
        m = MNTM(states={"q0", "q1"}, input_symbols={"1"}, tape_symbols={"1", "."}, n_tapes=1,
                 transitions={"q0": {("1",): dq}}, initial_state="q0", blank_symbol=".", final_states={"q1"})
        before = m.accepts_input("1")
        dq.clear()
        if m.accepts_input("1") != before or not isinstance(m.transitions["q0"][("1",)], tuple):
            out.append(f"{name}: stored as {type(m.transitions['q0'][('1',)]).__name__}, accepts_input('1') {before} -> {m.accepts_input('1')}")
    return (not out, "; ".join(out) or "sequence look-alikes are converted to tuples")


ALL = dict(F12=F12, F1=F1, F19=F19, F2=F2, F3=F3, F4=F4, F5=F5, F6=F6, F7=F7, F8=F8, F9=F9, F11=F11, F12b=F12b, F20=F20, F21=F21, F10a=F10a, F10b=F10b,
           F22=F22, F27=F27, F28=F28, F29=F29, F30=F30, F15=F15, F33=F33, F36=F36, F37=F37, F37b=F37b)

if __name__ == "__main__":
    names = sys.argv[1:] or list(ALL)
    bad = 0
    for n in names:
        try:
            ok, detail = ALL[n]()
        except Exception as e:  # noqa
            ok, detail = False, f"repro crashed: {type(e).__name__}: {e}"
        print(f"{n}: {'holds' if ok else 'FAILS'}  {detail}")
        bad += not ok
    sys.exit(1 if bad else 0)
