#!/usr/bin/env python3
"""Single entry point of the /verif checks.

    python3 check.py --setup                      build the Lean library, audit files and drivers
    python3 check.py Cxx --tier quick|thorough    run the check of one property
    python3 check.py Cxx --replay <file>          re-run a recorded failing input on /repo

The harness itself runs under /venv/bin/python (the interpreter that has the
repository's dependencies) with PYTHONPATH=/repo, so that `import automata` is the
code under test in its current working-tree state.
"""
import os
import subprocess
import sys

HERE = os.path.dirname(os.path.abspath(__file__))
REPO = os.environ.get("VERIF_REPO", "/repo")
PY = os.environ.get("VERIF_PYTHON", "/venv/bin/python")


def main() -> int:
    args = sys.argv[1:]
    env = dict(os.environ)
    env["PYTHONPATH"] = REPO + os.pathsep + HERE
    env.setdefault("CALEB531_AUTOMATA_VERIF", "1")
    seed = int(env.get("VERIF_SEED", "0") or 0)
    env["VERIF_SEED"] = str(seed)
    # set/dict iteration order of str keys is one of the things quantified over
    env["PYTHONHASHSEED"] = str((seed * 7919 + 17) % 4294967295)
    env["PYTHONDONTWRITEBYTECODE"] = "1"
    if not os.path.exists(PY):
        print(f"INFRA: interpreter {PY} missing")
        return 2
    if args and args[0] == "--setup":
        cmd = [PY, os.path.join(HERE, "harness", "build.py")]
        env["PYTHONPATH"] = HERE
    else:
        cmd = [PY, "-m", "harness.run"] + args
    try:
        return subprocess.call(cmd, cwd=HERE, env=env)
    except KeyboardInterrupt:
        return 2


if __name__ == "__main__":
    sys.exit(main())
